// Kani obligations for src/eval_complex/ast.rs: + - and unary minus equal the textbook component formulas exactly (C08);
// the leaf returns its payload bit for bit (C14).  The other arms are mapping obligations of the Verus unit complex-ast.
use super::ast::{eval, Node};
use num_complex::Complex;
fn same(a: f64, b: f64) -> bool { (a.is_nan() && b.is_nan()) || a.to_bits() == b.to_bits() }
fn num(re: f64, im: f64) -> Box<Node> { Box::new(Node::Number(Complex::new(re, im))) }
fn ok(r: Result<Complex<f64>, Box<dyn std::error::Error>>) -> Option<Complex<f64>> { match r { Ok(v) => Some(v), Err(e) => { std::mem::forget(e); None } } }
// @obligation owners=C08,C14,C20 fn=eval_complex::ast::eval/Number exact=1
#[kani::proof]
fn step_number() { let (a, b): (f64, f64) = (kani::any(), kani::any());
    match ok(eval(Node::Number(Complex::new(a, b)))) { Some(v) => assert!(v.re.to_bits() == a.to_bits() && v.im.to_bits() == b.to_bits(), "leaf unchanged, bit for bit"), None => assert!(false, "never Err") } }
// @obligation owners=C08 fn=eval_complex::ast::eval/Add exact=1
#[kani::proof]
fn step_add() { let (a, b, c, d): (f64, f64, f64, f64) = (kani::any(), kani::any(), kani::any(), kani::any());
    match ok(eval(Node::Add(num(a, b), num(c, d)))) { Some(v) => assert!(same(v.re, a + c) && same(v.im, b + d), "(a+bi)+(c+di) = (a+c)+(b+d)i"), None => assert!(false, "never Err") } }
// @obligation owners=C08 fn=eval_complex::ast::eval/Subtract exact=1
#[kani::proof]
fn step_subtract() { let (a, b, c, d): (f64, f64, f64, f64) = (kani::any(), kani::any(), kani::any(), kani::any());
    match ok(eval(Node::Subtract(num(a, b), num(c, d)))) { Some(v) => assert!(same(v.re, a - c) && same(v.im, b - d), "(a+bi)-(c+di) = (a-c)+(b-d)i"), None => assert!(false, "never Err") } }
// @obligation owners=C08,C19 fn=eval_complex::ast::eval/Negative exact=1
#[kani::proof]
fn step_negative() { let (a, b): (f64, f64) = (kani::any(), kani::any());
    match ok(eval(Node::Negative(num(a, b)))) { Some(v) => assert!(v.re.to_bits() == (a.to_bits() ^ (1u64 << 63)) && v.im.to_bits() == (b.to_bits() ^ (1u64 << 63)), "sign flip of both parts"), None => assert!(false, "never Err") } }
// @obligation owners=C08 fn=eval_complex::ast::eval/Multiply tier=open
#[kani::proof]
fn step_multiply_re() { let (a, b, c, d): (f64, f64, f64, f64) = (kani::any(), kani::any(), kani::any(), kani::any());
    match ok(eval(Node::Multiply(num(a, b), num(c, d)))) { Some(v) => assert!(same(v.re, a * c - b * d), "re((a+bi)(c+di)) = ac - bd"), None => assert!(false, "never Err") } }
// @obligation owners=C08,C01 fn=eval_complex::ast::eval/Multiply+Divide exact=1
#[kani::proof]
fn step_mul_div_total() { let (a, b, c, d): (f64, f64, f64, f64) = (kani::any(), kani::any(), kani::any(), kani::any());
    assert!(ok(eval(Node::Multiply(num(a, b), num(c, d)))).is_some() && ok(eval(Node::Divide(num(a, b), num(c, d)))).is_some(), "never Err, never a panic"); }
#[kani::proof]
fn canary_add_is_sub() { let (a, b, c, d): (f64, f64, f64, f64) = (kani::any(), kani::any(), kani::any(), kani::any());
    match ok(eval(Node::Add(num(a, b), num(c, d)))) { Some(v) => assert!(same(v.re, a - c), "canary"), None => {} } }
