// Kani obligations for src/utils/operator_category.rs (L4): the derived PartialOrd IS the precedence order of C04
// ("| ; & ; << >> ; + - ; * / % ; ^ ; prefix sign ; ! and function application", loosest first).  This is the fact the
// Verus units assume as T2 (rank()).  Re-proved per feature subset for C17.
use super::OperatorCategory;
use super::OperatorCategory::*;

fn rank(c: &OperatorCategory) -> u8 {
    match c {
        DefaultZero => 0,
        #[cfg(feature = "eval_i64")]
        BitwiseOr => 1,
        #[cfg(feature = "eval_i64")]
        BitwiseAnd => 2,
        #[cfg(feature = "eval_i64")]
        Shift => 3,
        Additive => 4, Multiplicative => 5, Power => 6, Negative => 7, Functional => 8,
    }
}
fn any_cat() -> OperatorCategory {
    let k: u8 = kani::any();
    match k {
        0 => DefaultZero,
        #[cfg(feature = "eval_i64")]
        1 => BitwiseOr,
        #[cfg(feature = "eval_i64")]
        2 => BitwiseAnd,
        #[cfg(feature = "eval_i64")]
        3 => Shift,
        4 => Additive, 5 => Multiplicative, 6 => Power, 7 => Negative, _ => Functional,
    }
}
// @obligation owners=C04,C17 fn=OperatorCategory::partial_cmp(derived)
#[kani::proof]
fn category_order() { let a = any_cat(); let b = any_cat();
    assert!((a < b) == (rank(&a) < rank(&b)), "derived `<` is the precedence order");
    assert!((a == b) == (rank(&a) == rank(&b)), "derived `==` is identity of categories");
    assert!((a <= b) == (rank(&a) <= rank(&b)));
    let c = a.clone(); assert!(c == a, "derived Clone is the identity"); }
#[kani::proof]
fn canary_category_order_reversed() { let a = any_cat(); let b = any_cat(); assert!((a < b) == (rank(&a) > rank(&b)), "canary"); }
