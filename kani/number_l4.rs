// Kani obligations for src/eval_number/number.rs (L4) -- C18, C09.  Copied into an overlay of the unmodified crate
// `eval_number` in an overlay copy of the unmodified crate (DESIGN 4.1).
use super::Number;

// @obligation owners=C18,C09,C10,C15 fn=Number::from(f64)
/// C18: Number::from(f64) is Integer(n) exactly when v is finite, integral and within the i64 range, and then
/// n equals v numerically; otherwise Float(v) with v's bits unchanged.  Full domain: all 2^64 bit patterns.
#[kani::proof]
fn number_from_f64() {
    let v: f64 = kani::any();
    let n = Number::from(v);
    let integral = v.is_finite() && v == v.trunc();
    let in_range = v >= -9223372036854775808.0 && v < 9223372036854775808.0;
    kani::cover!(integral && in_range);
    kani::cover!(!(integral && in_range));
    match n {
        Number::Integer(i) => {
            assert!(integral && in_range, "Integer only for finite integral in-range doubles");
            assert!((i as f64) == v, "Integer(n): n equals v numerically");
            assert!((i as i128) == (v as i128), "Integer(n): n is v exactly");
        }
        Number::Float(f) => {
            assert!(!(integral && in_range), "Float only when not an in-range integer");
            assert!(f.to_bits() == v.to_bits(), "Float keeps the bits of v");
        }
    }
}

// @obligation owners=C18 fn=Number::from(i64)
/// C18: Number::from(i64) is Integer of the same value.  Full domain.
#[kani::proof]
fn number_from_i64() {
    let v: i64 = kani::any();
    match Number::from(v) {
        Number::Integer(i) => assert!(i == v, "Integer of the same value"),
        Number::Float(_) => assert!(false, "an i64 converts to Integer"),
    }
}

/// canary: must FAIL (the engine is checking) - claims that every double converts to Integer
#[kani::proof]
fn canary_number_from_f64_always_integer() {
    let v: f64 = kani::any();
    assert!(matches!(Number::from(v), Number::Integer(_)), "canary");
}
