// Kani obligations for src/eval_i64/ast.rs (L3): per-arm cross-check of the Verus proof with bit-vector semantics,
// oracle in i128.  These harnesses also supply counterexamples that replay natively (DESIGN section 8).
use super::ast::{eval, Node};
fn num(x: i64) -> Box<Node> { Box::new(Node::Number(x)) }
fn ok(r: Result<i64, Box<dyn std::error::Error>>) -> Option<i64> { match r { Ok(v) => Some(v), Err(e) => { std::mem::forget(e); None } } }
fn fact128(n: i64) -> i128 { let mut r: i128 = 1; let mut i: i128 = 2; while i <= n as i128 && i <= 25 { r *= i; i += 1; } r }
fn fits(x: i128) -> bool { x >= i64::MIN as i128 && x <= i64::MAX as i128 }
fn same(a: f64, b: f64) -> bool { (a.is_nan() && b.is_nan()) || a.to_bits() == b.to_bits() }
static mut CALLS: u32 = 0; static mut TAG: u8 = 0; static mut A0: f64 = 0.0; static mut A1: f64 = 0.0; static mut RES: f64 = 0.0;
fn record1(tag: u8, x: f64) -> f64 { let r: f64 = kani::any(); unsafe { CALLS += 1; TAG = tag; A0 = x; RES = r; } r }
fn record2(tag: u8, x: f64, y: f64) -> f64 { let r: f64 = kani::any(); unsafe { CALLS += 1; TAG = tag; A0 = x; A1 = y; RES = r; } r }
fn s_sqrt(x: f64) -> f64 { record1(1, x) }  fn s_ln(x: f64) -> f64 { record1(14, x) }  fn s_exp(x: f64) -> f64 { record1(15, x) }
fn s_powf(x: f64, y: f64) -> f64 { record2(20, x, y) }  fn s_log(x: f64, y: f64) -> f64 { record2(21, x, y) }  fn s_log2(x: f64) -> f64 { record1(17, x) }

// @obligation owners=C06,C15 fn=eval_i64::ast::eval/Add exact=1
#[kani::proof]
fn step_add() { let a: i64 = kani::any(); let b: i64 = kani::any(); let e = a as i128 + b as i128;
    match ok(eval(Node::Add(num(a), num(b)))) { Some(v) => assert!(v as i128 == e, "exact sum"), None => assert!(!fits(e), "Err only on overflow") } }
// @obligation owners=C06,C15 fn=eval_i64::ast::eval/Subtract exact=1
#[kani::proof]
fn step_subtract() { let a: i64 = kani::any(); let b: i64 = kani::any(); let e = a as i128 - b as i128;
    match ok(eval(Node::Subtract(num(a), num(b)))) { Some(v) => assert!(v as i128 == e, "exact difference"), None => assert!(!fits(e), "Err only on overflow") } }
// @obligation owners=C06,C15 fn=eval_i64::ast::eval/Multiply exact=1
#[kani::proof]
fn step_multiply() { let a: i64 = kani::any(); let b: i64 = kani::any();
    match ok(eval(Node::Multiply(num(a), num(b)))) { Some(v) => assert!(a.checked_mul(b) == Some(v), "exact product"), None => assert!(a.checked_mul(b).is_none(), "Err only on overflow") } }
// @obligation owners=C06 fn=eval_i64::ast::eval/Negative exact=1
#[kani::proof]
fn step_negative() { let a: i64 = kani::any();
    match ok(eval(Node::Negative(num(a)))) { Some(v) => assert!(v as i128 == -(a as i128)), None => assert!(a == i64::MIN, "Err only for i64::MIN") } }
// @obligation owners=C06,C10 fn=eval_i64::ast::eval/Abs exact=1
#[kani::proof]
fn step_abs() { let a: i64 = kani::any();
    match ok(eval(Node::Abs(num(a)))) { Some(v) => assert!(v >= 0 && (v == a || v as i128 == -(a as i128))), None => assert!(a == i64::MIN, "Err only for i64::MIN") } }
// @obligation owners=C06,C10 fn=eval_i64::ast::eval/Sign exact=1
#[kani::proof]
fn step_sign() { let a: i64 = kani::any();
    match ok(eval(Node::Sign(num(a)))) { Some(v) => assert!(v == if a > 0 { 1 } else if a < 0 { -1 } else { 0 }), None => assert!(false, "never Err") } }
// @obligation owners=C06 fn=eval_i64::ast::eval/And exact=1
#[kani::proof]
fn step_and() { let a: i64 = kani::any(); let b: i64 = kani::any();
    match ok(eval(Node::And(num(a), num(b)))) { Some(v) => assert!(v == a & b), None => assert!(false, "never Err") } }
// @obligation owners=C06 fn=eval_i64::ast::eval/Or exact=1
#[kani::proof]
fn step_or() { let a: i64 = kani::any(); let b: i64 = kani::any();
    match ok(eval(Node::Or(num(a), num(b)))) { Some(v) => assert!(v == a | b), None => assert!(false, "never Err") } }
// @obligation owners=C06 fn=eval_i64::ast::eval/LeftShift exact=1
#[kani::proof]
fn step_left_shift() { let a: i64 = kani::any(); let c: i64 = kani::any();
    match ok(eval(Node::LeftShift(num(a), num(c)))) {
        Some(v) => { assert!(c >= 0 && c <= 63, "a shift count outside 0..63 yields Err");
            let e = (a as i128) << (c as u32); if fits(e) { assert!(v as i128 == e, "x << y = x * 2^y when that fits") } else { assert!(v == ((a as u64) << (c as u32)) as i64, "two's-complement shift") } },
        None => assert!(c < 0 || c > 63, "Err only for an out-of-range count") } }
// @obligation owners=C06 fn=eval_i64::ast::eval/RightShift exact=1
#[kani::proof]
fn step_right_shift() { let a: i64 = kani::any(); let c: i64 = kani::any();
    match ok(eval(Node::RightShift(num(a), num(c)))) {
        Some(v) => { assert!(c >= 0 && c <= 63); let e = (a as i128) >> (c as u32); assert!(v as i128 == e, "x >> y = floor(x / 2^y)"); assert!((v as i128) * (1i128 << c) <= a as i128 && (a as i128) < (v as i128 + 1) * (1i128 << c), "floor") },
        None => assert!(c < 0 || c > 63, "Err only for an out-of-range count") } }
// @obligation owners=C10 fn=eval_i64::ast::eval/Exp2 exact=1
#[kani::proof]
fn step_exp2() { let a: i64 = kani::any();
    match ok(eval(Node::Exp2(num(a)))) { Some(v) => { if a < 0 { assert!(v == 0) } else { assert!(a <= 62 && v as i128 == 1i128 << (a as u32), "2^x") } }, None => assert!(a > 62, "Err only when 2^x does not fit") } }
// @obligation owners=C06,C10 fn=eval_i64::ast::eval/Divide bounded="operands in -128..=127 (two symbolic 64-bit dividers do not finish in 25 minutes; corner operands: step_div_mod_corners); the unbounded statement is the Verus obligation V:i64-ast/eval/Divide"
#[kani::proof]
fn step_divide() { let sa: i8 = kani::any(); let sb: i8 = kani::any(); let a = sa as i64; let b = sb as i64;
    match ok(eval(Node::Divide(num(a), num(b)))) {
        Some(q) => { assert!(b != 0 && !(a == i64::MIN && b == -1));
            let r = a.wrapping_sub(q.wrapping_mul(b));       // a = q*b + r, |r| < |b|, r has the sign of a: truncation toward zero
            assert!(q.checked_mul(b).is_some() && (r == 0 || (r < 0) == (a < 0)) && r.unsigned_abs() < b.unsigned_abs(), "truncating quotient") },
        None => assert!(b == 0 || (a == i64::MIN && b == -1), "Err only for a zero divisor or MIN / -1") } }
// @obligation owners=C06,C10 fn=eval_i64::ast::eval/Modulo tier=thorough bounded="operands in -128..=127 (corner operands: step_div_mod_corners); the unbounded statement is the Verus obligation V:i64-ast/eval/Modulo"
#[kani::proof]
fn step_modulo() { let sa: i8 = kani::any(); let sb: i8 = kani::any(); let a = sa as i64; let b = sb as i64;
    match ok(eval(Node::Modulo(num(a), num(b)))) {
        Some(m) => assert!(b != 0 && (m == 0 || (m < 0) == (a < 0)) && m.unsigned_abs() < b.unsigned_abs() && a.wrapping_sub(m).wrapping_rem(b) == 0, "remainder with the sign of the dividend"),
        None => assert!(b == 0, "Err only for a zero divisor") } }

// @obligation owners=C06,C01 fn=eval_i64::ast::eval/Divide+Modulo tier=thorough bounded="the 16 corner operand pairs from {MIN, -1, 0, MAX}^2 (concrete)"
#[kani::proof]
fn step_div_mod_corners() {
    let c = [i64::MIN, -1, 0, i64::MAX];
    let mut i = 0; while i < 4 { let mut j = 0; while j < 4 { let (a, b) = (c[i], c[j]);
        let q = ok(eval(Node::Divide(num(a), num(b)))); let m = ok(eval(Node::Modulo(num(a), num(b))));
        if b == 0 { assert!(q.is_none() && m.is_none(), "zero divisor: Err") }
        else if a == i64::MIN && b == -1 { assert!(q.is_none() && m == Some(0), "MIN / -1 overflows, MIN % -1 is 0") }
        else { assert!(q == Some(a / b) && m == Some(a % b)) }
        j += 1; } i += 1; } }

// @obligation owners=C06,C01 fn=eval_i64::ast::eval/Divide bounded="the one corner pair MIN / -1 (concrete): the quotient does not fit"
#[kani::proof]
fn step_div_min_by_minus_one() { assert!(ok(eval(Node::Divide(num(i64::MIN), num(-1)))).is_none(), "MIN / -1 overflows: Err"); }
// @obligation owners=C06,C01 fn=eval_i64::ast::eval/Modulo bounded="the one corner pair MIN % -1 (concrete)"
#[kani::proof]
fn step_mod_min_by_minus_one() { assert!(ok(eval(Node::Modulo(num(i64::MIN), num(-1)))) == Some(0), "MIN % -1 is 0"); }

// ---- n! and ^ -------------------------------------------------------------------------------------------------------
// @obligation owners=C06,C10,C15,C01,C02 fn=eval_i64::ast::eval/Factorial exact=1
// full domain: for n >= 21 the product has left i64 after 20 multiplications, so the loop is left with Err whatever n is - the unwinding
// assertion proves that bound (a loop that runs on to n is an unwinding failure: C02)
#[kani::proof]
#[kani::unwind(24)]
fn step_factorial() { let n: i64 = kani::any();
    match ok(eval(Node::Factorial(num(n)))) {
        Some(v) => { if n >= 0 { assert!(n <= 20 && v as i128 == fact128(n), "n! exact for 0 <= n <= 20") } },
        None => assert!(n > 20, "Err only when n! does not fit i64") } }
macro_rules! pow_point_harness { ($name:ident, $a:expr, $e:expr, $want:expr) => {
    #[kani::proof]
    #[kani::unwind(10)]
    fn $name() { let want: Option<i64> = $want; assert!(ok(eval(Node::Pow(num($a), num($e)))) == want, "a ^ e: the exact power, Err when it does not fit i64"); } } }
// @obligation owners=C06,C15 fn=eval_i64::ast::eval/Pow bounded="the point 2 ^ 62 (concrete; symbolic bases need multipliers CBMC does not finish: the unbounded statement is V:i64-ast/eval/Pow)"
pow_point_harness!(step_pow_2_62, 2, 62, Some(1i64 << 62));
// @obligation owners=C06,C15 fn=eval_i64::ast::eval/Pow bounded="the point 2 ^ 63 (concrete): does not fit"
pow_point_harness!(step_pow_2_63, 2, 63, None);
// @obligation owners=C06,C15 fn=eval_i64::ast::eval/Pow bounded="the point (-2) ^ 63 (concrete) = i64::MIN"
pow_point_harness!(step_pow_m2_63, -2, 63, Some(i64::MIN));
// @obligation owners=C06,C15 fn=eval_i64::ast::eval/Pow bounded="the point 3 ^ 39 (concrete)"
pow_point_harness!(step_pow_3_39, 3, 39, Some(4052555153018976267));
// @obligation owners=C06,C15 fn=eval_i64::ast::eval/Pow bounded="the point 3 ^ 40 (concrete): does not fit"
pow_point_harness!(step_pow_3_40, 3, 40, None);
// @obligation owners=C06,C15 fn=eval_i64::ast::eval/Pow bounded="the point 7 ^ 0 (concrete)"
pow_point_harness!(step_pow_7_0, 7, 0, Some(1));
// @obligation owners=C06 fn=eval_i64::ast::eval/Pow bounded="base in {-1, 0, 1, 2}, exponent symbolic outside 0..=64 (an exponent outside 0..=4294967295 is Err; inside, the value by parity / overflow)"
#[kani::proof]
#[kani::unwind(40)]
fn step_pow_exponent_range() { let e: i64 = kani::any(); kani::assume(e < 0 || e > 64);
    let sel: u8 = kani::any(); kani::assume(sel < 4); let a: i64 = match sel { 0 => -1, 1 => 0, 2 => 1, _ => 2 };
    match ok(eval(Node::Pow(num(a), num(e)))) {
        Some(v) => { assert!(e > 64 && e <= u32::MAX as i64, "an exponent outside 0..=4294967295 yields Err");
            assert!(a != 2, "2 ^ e does not fit for e > 64");
            assert!(v == if a == 0 { 0 } else if a == 1 { 1 } else if e % 2 == 0 { 1 } else { -1 }, "0, 1, -1 to a large power") },
        None => assert!(e < 0 || e > u32::MAX as i64 || a == 2, "Err only for an exponent out of range or a result that does not fit") } }

// ---- real-valued functions of eval_i64: mapping (v as f64).prim() as i64 ------------------------------------------
// @obligation owners=C10 fn=eval_i64::ast::eval/Sqrt exact=1
#[kani::proof]
#[kani::stub(f64::sqrt, s_sqrt)]
fn step_sqrt() { let a: i64 = kani::any();
    match ok(eval(Node::Sqrt(num(a)))) { Some(v) => assert!(unsafe { CALLS == 1 && TAG == 1 && same(A0, a as f64) && v == RES as i64 }, "sqrt of the argument's double, truncated"), None => assert!(false, "never Err") } }
// @obligation owners=C10 fn=eval_i64::ast::eval/Ln exact=1
#[kani::proof]
#[kani::stub(f64::ln, s_ln)]
fn step_ln() { let a: i64 = kani::any();
    match ok(eval(Node::Ln(num(a)))) { Some(v) => assert!(unsafe { CALLS == 1 && TAG == 14 && same(A0, a as f64) && v == RES as i64 }), None => assert!(false, "never Err") } }
// @obligation owners=C10 fn=eval_i64::ast::eval/Exp exact=1
#[kani::proof]
#[kani::stub(f64::exp, s_exp)]
fn step_exp() { let a: i64 = kani::any();
    match ok(eval(Node::Exp(num(a)))) { Some(v) => assert!(unsafe { CALLS == 1 && TAG == 15 && same(A0, a as f64) && v == RES as i64 }), None => assert!(false, "never Err") } }
// @obligation owners=C10 fn=eval_i64::ast::eval/Lb exact=1
#[kani::proof]
#[kani::stub(f64::log, s_log)]
#[kani::stub(f64::log2, s_log2)]
fn step_lb() { let a: i64 = kani::any();
    match ok(eval(Node::Lb(num(a)))) { Some(v) => assert!(unsafe { CALLS == 1 && ((TAG == 21 && same(A1, 2.0)) || TAG == 17) && same(A0, a as f64) && v == RES as i64 }, "lb(x) = log(x, 2) or log2(x), truncated"), None => assert!(false, "never Err") } }
// @obligation owners=C10 fn=eval_i64::ast::eval/Log exact=1
#[kani::proof]
#[kani::stub(f64::log, s_log)]
fn step_log() { let a: i64 = kani::any(); let b: i64 = kani::any();
    match ok(eval(Node::Log(num(a), num(b)))) { Some(v) => assert!(unsafe { CALLS == 1 && TAG == 21 && same(A0, a as f64) && same(A1, b as f64) && v == RES as i64 }, "log(x, b): argument first, base second"), None => assert!(false, "never Err") } }
// @obligation owners=C10 fn=eval_i64::ast::eval/Root exact=1
#[kani::proof]
#[kani::stub(f64::powf, s_powf)]
fn step_root() { let n: i64 = kani::any(); let x: i64 = kani::any();
    match ok(eval(Node::Root(num(n), num(x)))) { Some(v) => assert!(unsafe { CALLS == 1 && TAG == 20 && same(A0, x as f64) && v == RES as i64 }, "root(n, x) = powf(x, _): the base is the second argument"), None => assert!(false, "never Err") } }

// ---- the tokenizer on concrete literals at the edge of i64 (CBMC cannot run the tokenizer on symbolic text; a concrete text is a point check,
// a second line for the literal arm when its text leaves what the Verus unit i64-tok can read)
fn first_token(text: &str) -> Option<super::token::Token> { super::tokenizer::Tokenizer::new(text).next() }
// @obligation owners=C06,C19,C01 fn=eval_i64::tokenizer::Tokenizer::next/literal bounded="the one literal 9223372036854775807 (concrete): the largest i64 lexes to itself"
#[kani::proof]
#[kani::unwind(24)]
fn tok_literal_max() { assert!(first_token("9223372036854775807") == Some(super::token::Token::Num(i64::MAX)), "i64::MAX lexes to itself"); }
// @obligation owners=C06,C19,C01 fn=eval_i64::tokenizer::Tokenizer::next/literal bounded="the one literal 9223372036854775808 (concrete): outside i64, rejected - never wrapped, never a panic"
#[kani::proof]
#[kani::unwind(24)]
fn tok_literal_overflow() { assert!(first_token("9223372036854775808").is_none(), "a literal outside i64 is rejected"); }

// @obligation owners=C13,C06 fn=eval_i64::tokenizer::Tokenizer::next/superscript bounded="the one superscript run ¹⁰ (concrete)"
#[kani::proof]
#[kani::unwind(24)]
fn tok_superscript_one_zero() { assert!(first_token("¹⁰") == Some(super::token::Token::Superscript(10)), "the run ¹⁰ is the exponent 10"); }

// ---- canaries: must FAIL ----------------------------------------------------------------------------------------------
#[kani::proof]
fn canary_add_wraps() { let a: i64 = kani::any(); let b: i64 = kani::any();
    match ok(eval(Node::Add(num(a), num(b)))) { Some(v) => assert!(v == a.wrapping_add(b) && false, "canary"), None => {} } }
#[kani::proof]
fn canary_rustc_overflow_checks_on() { let a: i64 = kani::any(); let b: i64 = kani::any(); let c = a + b; assert!(c == c); }
