// Kani obligations for src/eval_number/ast.rs (L3, DESIGN 6.3): one inductive step per Node constructor and
// operand-variant combination.  Leaves are fully symbolic (every i64 / every double bit pattern).
use super::ast::{eval, Node};
use super::Number;
use std::sync::Arc;

fn same(a: f64, b: f64) -> bool { (a.is_nan() && b.is_nan()) || a.to_bits() == b.to_bits() }
fn int(x: i64) -> Box<Node> { Box::new(Node::Num(Number::Integer(x))) }
fn flt(x: f64) -> Box<Node> { Box::new(Node::Num(Number::Float(x))) }
fn any_num() -> Number { if kani::any() { Number::Integer(kani::any()) } else { Number::Float(kani::any()) } }
fn leaf(n: &Number) -> Box<Node> { Box::new(Node::Num(n.clone())) }
fn val(n: &Number) -> f64 { match n { Number::Integer(i) => *i as f64, Number::Float(f) => *f } }
/// the result has the numeric value `x` (C09: "has the numeric value of the IEEE double operation")
fn has_value(r: &Number, x: f64) -> bool { match r { Number::Float(f) => same(*f, x), Number::Integer(i) => (*i as f64) == x && x == x.trunc() } }
/// the result is exactly Number::from(x) (canonical form; Number::from itself is obligation K:number-l4/number_from_f64)
fn is_from(r: &Number, x: f64) -> bool { let c = Number::from(x); match (r, &c) { (Number::Integer(a), Number::Integer(b)) => a == b, (Number::Float(a), Number::Float(b)) => same(*a, *b), _ => false } }
fn ok(r: Result<Number, Box<dyn std::error::Error>>) -> Option<Number> { match r { Ok(v) => Some(v), Err(e) => { std::mem::forget(e); None } } }

// ---- recording stubs for libm primitives (uninterpreted: any result) ------------------------------------
static mut CALLS: u32 = 0; static mut TAG: u8 = 0; static mut A0: f64 = 0.0; static mut A1: f64 = 0.0; static mut RES: f64 = 0.0;
fn record1(tag: u8, x: f64) -> f64 { let r: f64 = kani::any(); unsafe { CALLS += 1; TAG = tag; A0 = x; RES = r; } r }
fn record2(tag: u8, x: f64, y: f64) -> f64 { let r: f64 = kani::any(); unsafe { CALLS += 1; TAG = tag; A0 = x; A1 = y; RES = r; } r }
fn once1(tag: u8, x: f64) -> bool { unsafe { CALLS == 1 && TAG == tag && same(A0, x) } }
fn once2(tag: u8, x: f64, y: f64) -> bool { unsafe { CALLS == 1 && TAG == tag && same(A0, x) && same(A1, y) } }
fn res() -> f64 { unsafe { RES } }
fn s_sqrt(x: f64) -> f64 { record1(1, x) }  fn s_sin(x: f64) -> f64 { record1(2, x) }  fn s_cos(x: f64) -> f64 { record1(3, x) }
fn s_tan(x: f64) -> f64 { record1(4, x) }  fn s_sinh(x: f64) -> f64 { record1(5, x) }  fn s_cosh(x: f64) -> f64 { record1(6, x) }
fn s_tanh(x: f64) -> f64 { record1(7, x) }  fn s_asin(x: f64) -> f64 { record1(8, x) }  fn s_acos(x: f64) -> f64 { record1(9, x) }
fn s_atan(x: f64) -> f64 { record1(10, x) }  fn s_asinh(x: f64) -> f64 { record1(11, x) }  fn s_acosh(x: f64) -> f64 { record1(12, x) }
fn s_atanh(x: f64) -> f64 { record1(13, x) }  fn s_ln(x: f64) -> f64 { record1(14, x) }  fn s_exp(x: f64) -> f64 { record1(15, x) }
fn s_exp2(x: f64) -> f64 { record1(16, x) }  fn s_log2(x: f64) -> f64 { record1(17, x) }  fn s_log10(x: f64) -> f64 { record1(18, x) }
fn s_powf(x: f64, y: f64) -> f64 { record2(20, x, y) }  fn s_log(x: f64, y: f64) -> f64 { record2(21, x, y) }
fn s_atan2(x: f64, y: f64) -> f64 { record2(22, x, y) }  fn s_powi(x: f64, n: i32) -> f64 { record2(23, x, n as f64) }

// ---- leaf ----------------------------------------------------------------------------------------------
// @obligation owners=C09,C14,C20 fn=eval_number::ast::eval/Num exact=1
#[kani::proof]
fn step_num() { let n = any_num();
    match ok(eval(Node::Num(n.clone()))) { Some(r) => match (&n, &r) {
        (Number::Integer(a), Number::Integer(b)) => assert!(a == b, "same Integer"),
        (Number::Float(a), Number::Float(b)) => assert!(a.to_bits() == b.to_bits(), "same Float, bit for bit"),
        _ => assert!(false, "the variant is kept") }, None => assert!(false, "never Err") } }

// ---- + - * on two Integers: exact Integer when it fits, else the Float of the operands' doubles ---------
// @obligation owners=C09,C15 fn=eval_number::ast::eval/Add(Integer,Integer) exact=1
#[kani::proof]
fn step_add_ii() { let a: i64 = kani::any(); let b: i64 = kani::any();
    match ok(eval(Node::Add(int(a), int(b)))) { Some(r) => match a.checked_add(b) {
        Some(e) => assert!(matches!(r, Number::Integer(v) if v == e), "Integer(exact result) whenever it fits"),
        None => assert!(matches!(r, Number::Float(f) if same(f, (a as f64) + (b as f64))), "otherwise the Float of the operands' double values"),
    }, None => assert!(false, "never Err") } }
// @obligation owners=C09,C15 fn=eval_number::ast::eval/Subtract(Integer,Integer) exact=1
#[kani::proof]
fn step_sub_ii() { let a: i64 = kani::any(); let b: i64 = kani::any();
    match ok(eval(Node::Subtract(int(a), int(b)))) { Some(r) => match a.checked_sub(b) {
        Some(e) => assert!(matches!(r, Number::Integer(v) if v == e), "Integer(exact result) whenever it fits"),
        None => assert!(matches!(r, Number::Float(f) if same(f, (a as f64) - (b as f64))), "otherwise the Float of the operands' double values"),
    }, None => assert!(false, "never Err") } }
// @obligation owners=C09,C15 fn=eval_number::ast::eval/Multiply(Integer,Integer) bounded="operands in the i32 range (the product always fits); the full i64 domain is step_mul_ii in the thorough tier"
#[kani::proof]
fn step_mul_ii_small() { let a: i32 = kani::any(); let b: i32 = kani::any();
    match ok(eval(Node::Multiply(int(a as i64), int(b as i64)))) { Some(r) => assert!(matches!(r, Number::Integer(v) if v == (a as i64) * (b as i64)), "exact product"), None => assert!(false, "never Err") } }
// @obligation owners=C09,C15 fn=eval_number::ast::eval/Multiply(Integer,Integer) tier=thorough
#[kani::proof]
fn step_mul_ii() { let a: i64 = kani::any(); let b: i64 = kani::any();
    match ok(eval(Node::Multiply(int(a), int(b)))) { Some(r) => match a.checked_mul(b) {
        Some(e) => assert!(matches!(r, Number::Integer(v) if v == e), "Integer(exact result) whenever it fits"),
        None => assert!(matches!(r, Number::Float(_)), "otherwise a Float - never a wrapped Integer"),
    }, None => assert!(false, "never Err") } }
// @obligation owners=C09 fn=eval_number::ast::eval/Multiply(Integer,Integer) tier=open
#[kani::proof]
fn step_mul_ii_float_value() { let a: i64 = kani::any(); let b: i64 = kani::any(); kani::assume(a.checked_mul(b).is_none());
    match ok(eval(Node::Multiply(int(a), int(b)))) { Some(r) => assert!(matches!(r, Number::Float(f) if same(f, (a as f64) * (b as f64))), "the Float of the operands' double values"), None => assert!(false, "never Err") } }

// ---- + - * with a Float operand: IEEE operation on the operands' values ------------------------------------
// @obligation owners=C09,C15 fn=eval_number::ast::eval/Add(Float,_) exact=1
#[kani::proof]
fn step_add_f() { let x = any_num(); let y = any_num();
    kani::assume(matches!(x, Number::Float(_)) || matches!(y, Number::Float(_)));
    match ok(eval(Node::Add(leaf(&x), leaf(&y)))) { Some(r) => assert!(has_value(&r, val(&x) + val(&y)), "IEEE operation on the operands' values"), None => assert!(false, "never Err") } }
// @obligation owners=C09,C15 fn=eval_number::ast::eval/Subtract(Float,_) exact=1
#[kani::proof]
fn step_sub_f() { let x = any_num(); let y = any_num();
    kani::assume(matches!(x, Number::Float(_)) || matches!(y, Number::Float(_)));
    match ok(eval(Node::Subtract(leaf(&x), leaf(&y)))) { Some(r) => assert!(has_value(&r, val(&x) - val(&y)), "IEEE operation on the operands' values"), None => assert!(false, "never Err") } }
// @obligation owners=C09,C15 fn=eval_number::ast::eval/Multiply(Float,_) tier=open
#[kani::proof]
fn step_mul_f() { let x = any_num(); let y = any_num();
    kani::assume(matches!(x, Number::Float(_)) || matches!(y, Number::Float(_)));
    match ok(eval(Node::Multiply(leaf(&x), leaf(&y)))) { Some(r) => assert!(has_value(&r, val(&x) * val(&y)), "IEEE operation on the operands' values"), None => assert!(false, "never Err") } }

// ---- division ----------------------------------------------------------------------------------------------
// @obligation owners=C09,C15 fn=eval_number::ast::eval/Divide(Integer,Integer) bounded="operands in -128..=127 (two symbolic 64-bit dividers do not finish in 25 minutes; corner operands: step_div_corners)"
#[kani::proof]
fn step_div_ii() { let sa: i8 = kani::any(); let sb: i8 = kani::any(); let a = sa as i64; let b = sb as i64;
    let exact = a.checked_rem(b) == Some(0);      // b != 0, not MIN / -1, and b divides a
    match ok(eval(Node::Divide(int(a), int(b)))) { Some(r) => {
        if exact { assert!(matches!(r, Number::Integer(q) if q.checked_mul(b) == Some(a)), "exact division stays Integer: q * b == a") }
        else { assert!(matches!(r, Number::Float(_)), "inexact, by zero or out of range: Float of the operands' doubles") }
    }, None => assert!(false, "never Err") } }
// @obligation owners=C09 fn=eval_number::ast::eval/Divide bounded="operands that are integers of magnitude at most 16, in every Integer/Float combination (value of the Float quotient)"
#[kani::proof]
fn step_div_value_bounded() { let ia: i8 = kani::any(); let ib: i8 = kani::any(); kani::assume(ia >= -16 && ia <= 16 && ib >= -16 && ib <= 16);
    let x = if kani::any() { Number::Integer(ia as i64) } else { Number::Float(ia as f64) };
    let y = if kani::any() { Number::Integer(ib as i64) } else { Number::Float(ib as f64) };
    match ok(eval(Node::Divide(leaf(&x), leaf(&y)))) { Some(r) => assert!(has_value(&r, (ia as f64) / (ib as f64)), "numeric value of the IEEE quotient"), None => assert!(false, "never Err") } }
// @obligation owners=C01,C09 fn=eval_number::ast::eval/Divide
#[kani::proof]
fn step_div_total() { let x = any_num(); let y = any_num();
    assert!(ok(eval(Node::Divide(leaf(&x), leaf(&y)))).is_some(), "never Err, never a panic"); }

// ---- remainder -----------------------------------------------------------------------------------------------
// @obligation owners=C09,C15,C01 fn=eval_number::ast::eval/Modulo(Integer,Integer) bounded="operands in -128..=127 (corner operands: step_div_mod_corners)"
#[kani::proof]
fn step_mod_ii() { let sa: i8 = kani::any(); let sb: i8 = kani::any(); let a = sa as i64; let b = sb as i64;
    match ok(eval(Node::Modulo(int(a), int(b)))) { Some(r) => {
        if b == 0 { assert!(matches!(r, Number::Float(f) if f.is_nan()), "by zero: the Float of the operands' doubles (NaN)") }
        else { assert!(matches!(r, Number::Integer(m) if (m == 0 || (m < 0) == (a < 0)) && m.unsigned_abs() < b.unsigned_abs() && a.wrapping_sub(m).wrapping_rem(b) == 0),
                       "exact remainder: sign of the dividend, |m| < |b|, b divides a - m") }
    }, None => assert!(false, "never Err") } }
// @obligation owners=C01,C09 fn=eval_number::ast::eval/Modulo
#[kani::proof]
fn step_mod_total() { let x = any_num(); let y = any_num();
    assert!(ok(eval(Node::Modulo(leaf(&x), leaf(&y)))).is_some(), "never Err, never a panic"); }

// @obligation owners=C09,C01 fn=eval_number::ast::eval/Divide+Modulo(Integer,Integer) tier=thorough bounded="the 16 corner operand pairs from {MIN, -1, 0, MAX}^2 (concrete)"
#[kani::proof]
fn step_div_mod_corners() {
    let c = [i64::MIN, -1, 0, i64::MAX];
    let mut i = 0; while i < 4 { let mut j = 0; while j < 4 { let (a, b) = (c[i], c[j]);
        let q = ok(eval(Node::Divide(int(a), int(b)))); let m = ok(eval(Node::Modulo(int(a), int(b))));
        assert!(q.is_some() && m.is_some(), "never Err");
        if b == 0 { assert!(matches!(q, Some(Number::Float(_))) && matches!(m, Some(Number::Float(f)) if f.is_nan())) }
        else if a == i64::MIN && b == -1 { assert!(matches!(q, Some(Number::Float(f)) if f == 9223372036854775808.0) && matches!(m, Some(Number::Integer(0)))) }
        else { assert!(matches!(m, Some(Number::Integer(v)) if v == a % b));
               if a % b == 0 { assert!(matches!(q, Some(Number::Integer(v)) if v == a / b)) } else { assert!(matches!(q, Some(Number::Float(_)))) } }
        j += 1; } i += 1; } }

// @obligation owners=C09,C01,C15 fn=eval_number::ast::eval/Divide(Integer,Integer) bounded="the one corner pair MIN / -1 (concrete): the quotient 2^63 does not fit, so the result is the Float of the operands"
#[kani::proof]
fn step_div_min_by_minus_one() {
    let q = ok(eval(Node::Divide(int(i64::MIN), int(-1))));
    assert!(matches!(q, Some(Number::Float(f)) if f == 9223372036854775808.0), "MIN / -1 is the Float 2^63, never a wrapped Integer"); }
// @obligation owners=C09,C01 fn=eval_number::ast::eval/Modulo(Integer,Integer) bounded="the one corner pair MIN % -1 (concrete)"
#[kani::proof]
fn step_mod_min_by_minus_one() {
    let m = ok(eval(Node::Modulo(int(i64::MIN), int(-1))));
    assert!(matches!(m, Some(Number::Integer(0))), "MIN % -1 is 0"); }

// ---- the tokenizer on concrete literals (point checks: CBMC cannot run the tokenizer on symbolic text) - a second line for the literal arms
fn first_token(text: &str) -> Option<super::token::Token> { super::tokenizer::Tokenizer::new(text).next() }
// @obligation owners=C09,C19,C01 fn=eval_number::tokenizer::Tokenizer::next/literal bounded="the one literal 9223372036854775807 (concrete)"
#[kani::proof]
#[kani::unwind(24)]
fn tok_int_literal_max() { assert!(first_token("9223372036854775807") == Some(super::token::Token::Num(Number::Integer(i64::MAX))), "a point-free literal that fits i64 is that Integer"); }
// @obligation owners=C09,C19,C01 fn=eval_number::tokenizer::Tokenizer::next/literal bounded="the one literal 9007199254740993 = 2^53 + 1 (concrete): an Integer, exactly"
#[kani::proof]
#[kani::unwind(24)]
fn tok_int_literal_above_2_53() { assert!(first_token("9007199254740993") == Some(super::token::Token::Num(Number::Integer(9007199254740993))), "no round trip through f64"); }

// @obligation owners=C09,C19 fn=eval_number::tokenizer::Tokenizer::next/literal bounded="the one literal 2.0 (concrete): a literal with a point is a Float, integral or not"
#[kani::proof]
#[kani::unwind(24)]
fn tok_float_literal_integral() { assert!(matches!(first_token("2.0"), Some(super::token::Token::Num(Number::Float(f))) if f == 2.0), "a pointed literal is a Float"); }

// ---- unary minus, abs, sgn ----------------------------------------------------------------------------------------
// @obligation owners=C09,C15 fn=eval_number::ast::eval/Negative exact=1
#[kani::proof]
fn step_neg() { let x = any_num();
    match ok(eval(Node::Negative(leaf(&x)))) { Some(r) => match x {
        Number::Integer(a) => match a.checked_neg() { Some(e) => assert!(matches!(r, Number::Integer(v) if v == e)), None => assert!(matches!(r, Number::Float(f) if same(f, -(a as f64)))) },
        Number::Float(f) => assert!(matches!(r, Number::Float(g) if g.to_bits() == (f.to_bits() ^ (1u64 << 63))), "sign flip"),
    }, None => assert!(false, "never Err") } }
// @obligation owners=C09,C10,C15 fn=eval_number::ast::eval/Abs exact=1
#[kani::proof]
fn step_abs() { let x = any_num();
    match ok(eval(Node::Abs(leaf(&x)))) { Some(r) => match x {
        Number::Integer(a) => match a.checked_abs() { Some(e) => assert!(matches!(r, Number::Integer(v) if v == e)), None => assert!(matches!(r, Number::Float(f) if same(f, (a as f64).abs()))) },
        Number::Float(f) => assert!(matches!(r, Number::Float(g) if g.to_bits() == (f.to_bits() & !(1u64 << 63)))),
    }, None => assert!(false, "never Err") } }
// @obligation owners=C09,C10,C15 fn=eval_number::ast::eval/Sign exact=1
#[kani::proof]
fn step_sign() { let x = any_num();
    match ok(eval(Node::Sign(leaf(&x)))) { Some(r) => match x {
        Number::Integer(a) => assert!(matches!(r, Number::Integer(v) if v == a.signum())),
        Number::Float(f) => { if f > 0.0 { assert!(matches!(r, Number::Integer(1))) } else if f < 0.0 { assert!(matches!(r, Number::Integer(-1))) } else if f == 0.0 { assert!(matches!(r, Number::Integer(0)), "sgn(0) = 0") } }
    }, None => assert!(false, "never Err") } }

// ---- floor ceil round trunc: the correctly rounded value ------------------------------------------------------------
// @obligation owners=C09,C10 fn=eval_number::ast::eval/Floor exact=1
#[kani::proof]
fn step_floor() { let x = any_num();
    match ok(eval(Node::Floor(leaf(&x)))) { Some(r) => match x {
        Number::Integer(a) => assert!(matches!(r, Number::Integer(v) if v == a), "an Integer is its own rounding"),
        Number::Float(f) => assert!(is_from(&r, f.floor()), "the rounded value, as Integer when it is one"),
    }, None => assert!(false, "never Err") } }
// @obligation owners=C09,C10 fn=eval_number::ast::eval/Ceil exact=1
#[kani::proof]
fn step_ceil() { let x = any_num();
    match ok(eval(Node::Ceil(leaf(&x)))) { Some(r) => match x {
        Number::Integer(a) => assert!(matches!(r, Number::Integer(v) if v == a), "an Integer is its own rounding"),
        Number::Float(f) => assert!(is_from(&r, f.ceil()), "the rounded value, as Integer when it is one"),
    }, None => assert!(false, "never Err") } }
// @obligation owners=C09,C10 fn=eval_number::ast::eval/Round exact=1
#[kani::proof]
fn step_round() { let x = any_num();
    match ok(eval(Node::Round(leaf(&x)))) { Some(r) => match x {
        Number::Integer(a) => assert!(matches!(r, Number::Integer(v) if v == a), "an Integer is its own rounding"),
        Number::Float(f) => assert!(is_from(&r, f.round()), "the rounded value, as Integer when it is one"),
    }, None => assert!(false, "never Err") } }
// @obligation owners=C09,C10 fn=eval_number::ast::eval/Truncate exact=1
#[kani::proof]
fn step_truncate() { let x = any_num();
    match ok(eval(Node::Truncate(leaf(&x)))) { Some(r) => match x {
        Number::Integer(a) => assert!(matches!(r, Number::Integer(v) if v == a), "an Integer is its own rounding"),
        Number::Float(f) => assert!(is_from(&r, f.trunc()), "the rounded value, as Integer when it is one"),
    }, None => assert!(false, "never Err") } }

// ---- power -------------------------------------------------------------------------------------------------------
// @obligation owners=C09,C10,C13 fn=eval_number::ast::eval/Pow(Float,Float) tier=open
#[kani::proof]
#[kani::stub(f64::powf, s_powf)]
fn step_pow_ff() { let x: f64 = kani::any(); let y: f64 = kani::any();
    match ok(eval(Node::Pow(flt(x), flt(y)))) { Some(r) => assert!(once2(20, x, y) && is_from(&r, res()), "powf(base, exponent) on the operands' values"), None => assert!(false, "never Err") } }
// @obligation owners=C09,C10 fn=eval_number::ast::eval/Pow(Float,Integer) tier=open
#[kani::proof]
#[kani::stub(f64::powf, s_powf)]
fn step_pow_fi() { let x: f64 = kani::any(); let y: i64 = kani::any();
    match ok(eval(Node::Pow(flt(x), int(y)))) { Some(r) => assert!(once2(20, x, y as f64) && is_from(&r, res()), "powf(base, exponent) on the operands' values"), None => assert!(false, "never Err") } }
// @obligation owners=C09,C10 fn=eval_number::ast::eval/Pow(Integer,Float) tier=open
#[kani::proof]
#[kani::stub(f64::powf, s_powf)]
fn step_pow_if() { let x: i64 = kani::any(); let y: f64 = kani::any();
    match ok(eval(Node::Pow(int(x), flt(y)))) { Some(r) => assert!(once2(20, x as f64, y) && is_from(&r, res()), "powf(base, exponent) on the operands' values"), None => assert!(false, "never Err") } }
// NOTE: the value of Integer ^ Integer is NOT an obligation here: Kani 0.68's model of this arm disagrees with native
// execution (even the concrete Pow(Integer(3), Integer(2)) "may return a Float" for CBMC while the native run of the
// same harness returns Integer(9)); the counterexample does not replay, so the obligation is reported as open.
// @obligation owners=C01,C09 fn=eval_number::ast::eval/Pow(Integer,Integer) tier=thorough
#[kani::proof]
#[kani::unwind(40)]
#[kani::stub(f64::powf, s_powf)]
#[kani::stub(f64::powi, s_powi)]
fn step_pow_ii_total() { let a: i64 = kani::any(); let b: i64 = kani::any();
    // every exponent (negative, above u32::MAX, ..): never Err, never a panic; a negative exponent gives Number::from of a float power
    match ok(eval(Node::Pow(int(a), int(b)))) { Some(r) => { if b < 0 { assert!(is_from(&r, res()), "negative exponent: float power of the operands' doubles") } }, None => assert!(false, "never Err") } }

// ---- factorial ------------------------------------------------------------------------------------------------------
// @obligation owners=C09,C10,C15,C02,C01 fn=eval_number::ast::eval/Factorial(Integer)
// full domain: the unwinding assertion is the iteration bound (the product loop runs only for 0 <= n <= 20)
#[kani::proof]
#[kani::unwind(22)]
#[kani::stub(f64::sin, s_sin)]
#[kani::stub(f64::powf, s_powf)]
fn step_factorial_int() { let n: i64 = kani::any();
    match ok(eval(Node::Factorial(int(n)))) { Some(r) => {
        if n >= 0 && n <= 20 { let mut f: i64 = 1; let mut i: i64 = 2; while i <= n { f *= i; i += 1; } assert!(matches!(r, Number::Integer(v) if v == f), "n! exactly, 0 <= n <= 20") }
        else { assert!(matches!(r, Number::Float(_)), "outside 0..=20: a Float (Gamma)") }
    }, None => assert!(false, "never Err") } }
// @obligation owners=C01,C02 fn=eval_number::ast::eval/Factorial(Float) tier=open
#[kani::proof]
#[kani::stub(f64::sin, s_sin)]
#[kani::stub(f64::powf, s_powf)]
fn step_factorial_float_total() { let f: f64 = kani::any();
    assert!(ok(eval(Node::Factorial(flt(f)))).is_some(), "never Err, no loop"); }

// ---- functions that apply one libm primitive to the operand's value and canonicalise with Number::from --------------
// @obligation owners=C09,C10 fn=eval_number::ast::eval/Sqrt exact=1
#[kani::proof]
#[kani::stub(f64::sqrt, s_sqrt)]
fn step_sqrt() { let x = any_num();
    match ok(eval(Node::Sqrt(leaf(&x)))) { Some(r) => assert!(once1(1, val(&x)) && is_from(&r, res()), "primitive applied once to the operand's value"), None => assert!(false, "never Err") } }
// @obligation owners=C10 fn=eval_number::ast::eval/Sin exact=1
#[kani::proof]
#[kani::stub(f64::sin, s_sin)]
fn step_sin() { let x = any_num();
    match ok(eval(Node::Sin(leaf(&x)))) { Some(r) => assert!(once1(2, val(&x)) && is_from(&r, res()), "primitive applied once to the operand's value"), None => assert!(false, "never Err") } }
// @obligation owners=C10 fn=eval_number::ast::eval/Cos exact=1
#[kani::proof]
#[kani::stub(f64::cos, s_cos)]
fn step_cos() { let x = any_num();
    match ok(eval(Node::Cos(leaf(&x)))) { Some(r) => assert!(once1(3, val(&x)) && is_from(&r, res()), "primitive applied once to the operand's value"), None => assert!(false, "never Err") } }
// @obligation owners=C10 fn=eval_number::ast::eval/Tan exact=1
#[kani::proof]
#[kani::stub(f64::tan, s_tan)]
fn step_tan() { let x = any_num();
    match ok(eval(Node::Tan(leaf(&x)))) { Some(r) => assert!(once1(4, val(&x)) && is_from(&r, res()), "primitive applied once to the operand's value"), None => assert!(false, "never Err") } }
// @obligation owners=C10 fn=eval_number::ast::eval/Sinh exact=1
#[kani::proof]
#[kani::stub(f64::sinh, s_sinh)]
fn step_sinh() { let x = any_num();
    match ok(eval(Node::Sinh(leaf(&x)))) { Some(r) => assert!(once1(5, val(&x)) && is_from(&r, res()), "primitive applied once to the operand's value"), None => assert!(false, "never Err") } }
// @obligation owners=C10 fn=eval_number::ast::eval/Cosh exact=1
#[kani::proof]
#[kani::stub(f64::cosh, s_cosh)]
fn step_cosh() { let x = any_num();
    match ok(eval(Node::Cosh(leaf(&x)))) { Some(r) => assert!(once1(6, val(&x)) && is_from(&r, res()), "primitive applied once to the operand's value"), None => assert!(false, "never Err") } }
// @obligation owners=C10 fn=eval_number::ast::eval/Tanh exact=1
#[kani::proof]
#[kani::stub(f64::tanh, s_tanh)]
fn step_tanh() { let x = any_num();
    match ok(eval(Node::Tanh(leaf(&x)))) { Some(r) => assert!(once1(7, val(&x)) && is_from(&r, res()), "primitive applied once to the operand's value"), None => assert!(false, "never Err") } }
// @obligation owners=C10 fn=eval_number::ast::eval/Asin exact=1
#[kani::proof]
#[kani::stub(f64::asin, s_asin)]
fn step_asin() { let x = any_num();
    match ok(eval(Node::Asin(leaf(&x)))) { Some(r) => assert!(once1(8, val(&x)) && is_from(&r, res()), "primitive applied once to the operand's value"), None => assert!(false, "never Err") } }
// @obligation owners=C10 fn=eval_number::ast::eval/Acos exact=1
#[kani::proof]
#[kani::stub(f64::acos, s_acos)]
fn step_acos() { let x = any_num();
    match ok(eval(Node::Acos(leaf(&x)))) { Some(r) => assert!(once1(9, val(&x)) && is_from(&r, res()), "primitive applied once to the operand's value"), None => assert!(false, "never Err") } }
// @obligation owners=C10 fn=eval_number::ast::eval/Atan exact=1
#[kani::proof]
#[kani::stub(f64::atan, s_atan)]
fn step_atan() { let x = any_num();
    match ok(eval(Node::Atan(leaf(&x)))) { Some(r) => assert!(once1(10, val(&x)) && is_from(&r, res()), "primitive applied once to the operand's value"), None => assert!(false, "never Err") } }
// @obligation owners=C10,C13 fn=eval_number::ast::eval/Arsinh exact=1
#[kani::proof]
#[kani::stub(f64::asinh, s_asinh)]
fn step_arsinh() { let x = any_num();
    match ok(eval(Node::Arsinh(leaf(&x)))) { Some(r) => assert!(once1(11, val(&x)) && is_from(&r, res()), "primitive applied once to the operand's value"), None => assert!(false, "never Err") } }
// @obligation owners=C10,C13 fn=eval_number::ast::eval/Arcosh exact=1
#[kani::proof]
#[kani::stub(f64::acosh, s_acosh)]
fn step_arcosh() { let x = any_num();
    match ok(eval(Node::Arcosh(leaf(&x)))) { Some(r) => assert!(once1(12, val(&x)) && is_from(&r, res()), "primitive applied once to the operand's value"), None => assert!(false, "never Err") } }
// @obligation owners=C10,C13 fn=eval_number::ast::eval/Artanh exact=1
#[kani::proof]
#[kani::stub(f64::atanh, s_atanh)]
fn step_artanh() { let x = any_num();
    match ok(eval(Node::Artanh(leaf(&x)))) { Some(r) => assert!(once1(13, val(&x)) && is_from(&r, res()), "primitive applied once to the operand's value"), None => assert!(false, "never Err") } }
// @obligation owners=C10 fn=eval_number::ast::eval/Ln exact=1
#[kani::proof]
#[kani::stub(f64::ln, s_ln)]
fn step_ln() { let x = any_num();
    match ok(eval(Node::Ln(leaf(&x)))) { Some(r) => assert!(once1(14, val(&x)) && is_from(&r, res()), "primitive applied once to the operand's value"), None => assert!(false, "never Err") } }
// @obligation owners=C10 fn=eval_number::ast::eval/Exp exact=1
#[kani::proof]
#[kani::stub(f64::exp, s_exp)]
fn step_exp() { let x = any_num();
    match ok(eval(Node::Exp(leaf(&x)))) { Some(r) => assert!(once1(15, val(&x)) && is_from(&r, res()), "primitive applied once to the operand's value"), None => assert!(false, "never Err") } }
// @obligation owners=C10 fn=eval_number::ast::eval/Exp2 exact=1
#[kani::proof]
#[kani::stub(f64::exp2, s_exp2)]
fn step_exp2() { let x = any_num();
    match ok(eval(Node::Exp2(leaf(&x)))) { Some(r) => assert!(once1(16, val(&x)) && is_from(&r, res()), "primitive applied once to the operand's value"), None => assert!(false, "never Err") } }
// @obligation owners=C10 fn=eval_number::ast::eval/Lb exact=1
#[kani::proof]
#[kani::stub(f64::log, s_log)]
#[kani::stub(f64::log2, s_log2)]
fn step_lb() { let x = any_num();
    match ok(eval(Node::Lb(leaf(&x)))) { Some(r) => assert!((once2(21, val(&x), 2.0) || once1(17, val(&x))) && is_from(&r, res()), "lb(x) = log(x, 2) or log2(x)"), None => assert!(false, "never Err") } }
// @obligation owners=C10 fn=eval_number::ast::eval/Log exact=1
#[kani::proof]
#[kani::stub(f64::log, s_log)]
fn step_log() { let x = any_num(); let b = any_num();
    match ok(eval(Node::Log(leaf(&x), leaf(&b)))) { Some(r) => assert!(once2(21, val(&x), val(&b)) && is_from(&r, res()), "log(x, b): argument first, base second"), None => assert!(false, "never Err") } }
// @obligation owners=C10 fn=eval_number::ast::eval/Atan2 exact=1
#[kani::proof]
#[kani::stub(f64::atan2, s_atan2)]
fn step_atan2() { let y = any_num(); let x = any_num();
    match ok(eval(Node::Atan2(leaf(&y), leaf(&x)))) { Some(r) => assert!(once2(22, val(&y), val(&x)) && is_from(&r, res()), "atan2(y, x)"), None => assert!(false, "never Err") } }
// @obligation owners=C10 fn=eval_number::ast::eval/Root exact=1
#[kani::proof]
#[kani::stub(f64::powf, s_powf)]
fn step_root() { let n = any_num(); let x = any_num();
    match ok(eval(Node::Root(leaf(&n), leaf(&x)))) { Some(r) => assert!(unsafe { CALLS == 1 && TAG == 20 && same(A0, val(&x)) } && is_from(&r, res()), "root(n, x) = powf(x, _): the base is the second argument"), None => assert!(false, "never Err") } }

// ---- value-dependent loops (C02, C01) ------------------------------------------------------------------------------------
// @obligation owners=C01,C02 fn=eval_number::ast::eval/LambertW
#[kani::proof]
#[kani::unwind(130)]
#[kani::stub(f64::exp, s_exp)]
#[kani::stub(f64::log10, s_log10)]
fn step_lambert_w_terminates() { let x = any_num(); let _ = ok(eval(Node::LambertW(leaf(&x)))); }
// @obligation owners=C01,C02 fn=eval_number::ast::eval/ILog
#[kani::proof]
#[kani::unwind(67)]
#[kani::stub(f64::log10, s_log10)]
fn step_ilog_terminates() { let x = any_num(); let b = any_num(); let _ = ok(eval(Node::ILog(leaf(&x), leaf(&b)))); }

// ---- aggregates: single-argument path only (see kani/f64_ast.rs) ----------------------------------------------------------
// @obligation owners=C11 fn=eval_number::ast::eval/Min bounded="arity 1"
#[kani::proof]
#[kani::unwind(4)]
fn agg_min_single() { let a: i64 = kani::any();
    match ok(eval(Node::Min(Arc::new(vec![Node::Num(Number::Integer(a))])))) { Some(r) => assert!(matches!(r, Number::Integer(v) if v == a)), None => assert!(false) } }

// ---- canaries: must FAIL -----------------------------------------------------------------------------------------------------
#[kani::proof]
fn canary_add_wraps() { let a: i64 = kani::any(); let b: i64 = kani::any();
    match ok(eval(Node::Add(int(a), int(b)))) { Some(r) => assert!(matches!(r, Number::Integer(v) if v == a.wrapping_add(b)), "canary"), None => {} } }
#[kani::proof]
fn canary_rustc_overflow_checks_on() { let a: i64 = kani::any(); let b: i64 = kani::any(); let c = a + b; assert!(c == c); }
