// Kani obligations for src/eval_f64/ast.rs (L3, DESIGN 6.3): one inductive step per Node constructor.
// Each harness builds K(Number(a), Number(b)) with fully symbolic leaves (all 2^64 bit patterns each), calls the
// real, unmodified `eval`, and asserts the arm's contract bit-precisely.  Loop-free harnesses over the full
// domain are complete proofs of that step.  libm primitives are replaced by recording stubs (uninterpreted:
// any result), so what is proved for them is "the right primitive is applied to the right operands".
use super::ast::{eval, Node};
use std::sync::Arc;

fn same(a: f64, b: f64) -> bool { (a.is_nan() && b.is_nan()) || a.to_bits() == b.to_bits() }
fn num(x: f64) -> Box<Node> { Box::new(Node::Number(x)) }

// ---- recording stubs --------------------------------------------------------------------------------
static mut CALLS: u32 = 0;
static mut TAG: u8 = 0;
static mut A0: f64 = 0.0;
static mut A1: f64 = 0.0;
static mut RES: f64 = 0.0;
fn record1(tag: u8, x: f64) -> f64 { let r: f64 = kani::any(); unsafe { CALLS += 1; TAG = tag; A0 = x; RES = r; } r }
fn record2(tag: u8, x: f64, y: f64) -> f64 { let r: f64 = kani::any(); unsafe { CALLS += 1; TAG = tag; A0 = x; A1 = y; RES = r; } r }
fn once1(tag: u8, x: f64, v: f64) -> bool { unsafe { CALLS == 1 && TAG == tag && same(A0, x) && same(v, RES) } }
fn once2(tag: u8, x: f64, y: f64, v: f64) -> bool { unsafe { CALLS == 1 && TAG == tag && same(A0, x) && same(A1, y) && same(v, RES) } }
fn s_sqrt(x: f64) -> f64 { record1(1, x) }
fn s_sin(x: f64) -> f64 { record1(2, x) }
fn s_cos(x: f64) -> f64 { record1(3, x) }
fn s_tan(x: f64) -> f64 { record1(4, x) }
fn s_sinh(x: f64) -> f64 { record1(5, x) }
fn s_cosh(x: f64) -> f64 { record1(6, x) }
fn s_tanh(x: f64) -> f64 { record1(7, x) }
fn s_asin(x: f64) -> f64 { record1(8, x) }
fn s_acos(x: f64) -> f64 { record1(9, x) }
fn s_atan(x: f64) -> f64 { record1(10, x) }
fn s_asinh(x: f64) -> f64 { record1(11, x) }
fn s_acosh(x: f64) -> f64 { record1(12, x) }
fn s_atanh(x: f64) -> f64 { record1(13, x) }
fn s_ln(x: f64) -> f64 { record1(14, x) }
fn s_exp(x: f64) -> f64 { record1(15, x) }
fn s_exp2(x: f64) -> f64 { record1(16, x) }
fn s_log2(x: f64) -> f64 { record1(17, x) }
fn s_log10(x: f64) -> f64 { record1(18, x) }
fn s_powf(x: f64, y: f64) -> f64 { record2(20, x, y) }
fn s_log(x: f64, y: f64) -> f64 { record2(21, x, y) }
fn s_atan2(x: f64, y: f64) -> f64 { record2(22, x, y) }
fn s_powi(x: f64, n: i32) -> f64 { record2(23, x, n as f64) }

// ---- exact IEEE arms (C05) ----------------------------------------------------------------------------
// @obligation owners=C05,C14,C20 fn=eval_f64::ast::eval/Number exact=1
#[kani::proof]
fn step_number() { let a: f64 = kani::any();
    match eval(Node::Number(a)) { Ok(v) => assert!(v.to_bits() == a.to_bits(), "leaf returns its payload unchanged, bit for bit"), Err(e) => { std::mem::forget(e); assert!(false, "never Err") } } }
// @obligation owners=C05,C20,C15 fn=eval_f64::ast::eval/Add exact=1
#[kani::proof]
fn step_add() { let a: f64 = kani::any(); let b: f64 = kani::any();
    match eval(Node::Add(num(a), num(b))) { Ok(v) => assert!(same(v, a + b), "IEEE addition"), Err(e) => { std::mem::forget(e); assert!(false, "never Err") } } }
// @obligation owners=C05,C20,C15 fn=eval_f64::ast::eval/Subtract exact=1
#[kani::proof]
fn step_subtract() { let a: f64 = kani::any(); let b: f64 = kani::any();
    match eval(Node::Subtract(num(a), num(b))) { Ok(v) => assert!(same(v, a - b), "IEEE subtraction, operands in order"), Err(e) => { std::mem::forget(e); assert!(false, "never Err") } } }
// @obligation owners=C05,C20,C15 fn=eval_f64::ast::eval/Multiply exact=1
#[kani::proof]
fn step_multiply() { let a: f64 = kani::any(); let b: f64 = kani::any();
    match eval(Node::Multiply(num(a), num(b))) { Ok(v) => assert!(same(v, a * b), "IEEE multiplication"), Err(e) => { std::mem::forget(e); assert!(false, "never Err") } } }
// @obligation owners=C05,C20 fn=eval_f64::ast::eval/Divide tier=open
#[kani::proof]
fn step_divide() { let a: f64 = kani::any(); let b: f64 = kani::any();
    match eval(Node::Divide(num(a), num(b))) { Ok(v) => assert!(same(v, a / b), "IEEE division, non-finite results are values"), Err(e) => { std::mem::forget(e); assert!(false, "never Err") } } }
// @obligation owners=C05,C19,C15 fn=eval_f64::ast::eval/Negative exact=1
#[kani::proof]
fn step_negative() { let a: f64 = kani::any();
    match eval(Node::Negative(num(a))) { Ok(v) => assert!(v.to_bits() == (a.to_bits() ^ (1u64 << 63)), "unary minus flips the sign bit"), Err(e) => { std::mem::forget(e); assert!(false, "never Err") } } }
// @obligation owners=C05,C10,C15 fn=eval_f64::ast::eval/Abs exact=1
#[kani::proof]
fn step_abs() { let a: f64 = kani::any();
    match eval(Node::Abs(num(a))) { Ok(v) => assert!(v.to_bits() == (a.to_bits() & !(1u64 << 63)), "abs clears the sign bit"), Err(e) => { std::mem::forget(e); assert!(false, "never Err") } } }
// @obligation owners=C05,C10,C15 fn=eval_f64::ast::eval/Floor exact=1
#[kani::proof]
fn step_floor() { let a: f64 = kani::any();
    match eval(Node::Floor(num(a))) { Ok(v) => assert!(same(v, a.floor())), Err(e) => { std::mem::forget(e); assert!(false, "never Err") } } }
// @obligation owners=C05,C10,C15 fn=eval_f64::ast::eval/Ceil exact=1
#[kani::proof]
fn step_ceil() { let a: f64 = kani::any();
    match eval(Node::Ceil(num(a))) { Ok(v) => assert!(same(v, a.ceil())), Err(e) => { std::mem::forget(e); assert!(false, "never Err") } } }
// @obligation owners=C05,C10,C15 fn=eval_f64::ast::eval/Truncate exact=1
#[kani::proof]
fn step_truncate() { let a: f64 = kani::any();
    match eval(Node::Truncate(num(a))) { Ok(v) => assert!(same(v, a.trunc())), Err(e) => { std::mem::forget(e); assert!(false, "never Err") } } }
// @obligation owners=C05,C10,C15 fn=eval_f64::ast::eval/Round exact=1
#[kani::proof]
fn step_round() { let a: f64 = kani::any();
    match eval(Node::Round(num(a))) { Ok(v) => {
        assert!(same(v, a.round()));
        // ties away from zero, stated directly for the halves below 2^52
        if a.is_finite() && a.abs() < 4503599627370496.0 && (a - a.trunc()).abs() == 0.5 { assert!(v == a.trunc() + a.signum(), "ties away from zero"); }
    }, Err(e) => { std::mem::forget(e); assert!(false, "never Err") } } }
// @obligation owners=C05,C20 fn=eval_f64::ast::eval/Divide bounded="operands that are integers of magnitude at most 16 (CBMC does not finish two 64-bit float dividers in 15 minutes; the full-domain obligation step_divide is tried in the thorough tier)"
#[kani::proof]
fn step_divide_bounded() { let ia: i8 = kani::any(); let ib: i8 = kani::any();
    kani::assume(ia >= -16 && ia <= 16 && ib >= -16 && ib <= 16);
    let a = ia as f64; let b = ib as f64;
    match eval(Node::Divide(num(a), num(b))) { Ok(v) => assert!(same(v, a / b), "IEEE division"), Err(e) => { std::mem::forget(e); assert!(false, "never Err") } } }
// @obligation owners=C01,C05 fn=eval_f64::ast::eval/Divide
#[kani::proof]
fn step_divide_total() { let a: f64 = kani::any(); let b: f64 = kani::any();
    // full domain: division by zero, overflow and invalid operations are values, never Err, never a panic
    match eval(Node::Divide(num(a), num(b))) { Ok(_) => {}, Err(e) => { std::mem::forget(e); assert!(false, "never Err") } } }
// @obligation owners=C05 fn=eval_f64::ast::eval/Modulo bounded="operands that are integers of magnitude at most 16 (CBMC's fmod circuit does not finish on larger domains)"
#[kani::proof]
fn step_modulo_bounded() { let ia: i8 = kani::any(); let ib: i8 = kani::any();
    kani::assume(ia >= -16 && ia <= 16 && ib >= -16 && ib <= 16);
    let a = ia as f64; let b = ib as f64;
    match eval(Node::Modulo(num(a), num(b))) { Ok(v) => assert!(same(v, a % b), "fmod: sign of the dividend"), Err(e) => { std::mem::forget(e); assert!(false, "never Err") } } }
// @obligation owners=C01,C05 fn=eval_f64::ast::eval/Modulo
#[kani::proof]
fn step_modulo_total() { let a: f64 = kani::any(); let b: f64 = kani::any();
    // full domain: the arm never fails and never panics (the value is only checked on the bounded domain above)
    match eval(Node::Modulo(num(a), num(b))) { Ok(_) => {}, Err(e) => { std::mem::forget(e); assert!(false, "never Err") } } }

// ---- arms that apply one libm primitive (C05 pow/sqrt, C10 the rest): mapping proofs -------------------
// @obligation owners=C05,C10 fn=eval_f64::ast::eval/Sqrt exact=1
#[kani::proof]
#[kani::stub(f64::sqrt, s_sqrt)]
fn step_sqrt() { let a: f64 = kani::any();
    match eval(Node::Sqrt(num(a))) { Ok(v) => assert!(once1(1, a, v), "applies the primitive once to the operand and returns its result unchanged"), Err(e) => { std::mem::forget(e); assert!(false, "never Err") } } }
// @obligation owners=C10 fn=eval_f64::ast::eval/Sin exact=1
#[kani::proof]
#[kani::stub(f64::sin, s_sin)]
fn step_sin() { let a: f64 = kani::any();
    match eval(Node::Sin(num(a))) { Ok(v) => assert!(once1(2, a, v), "applies the primitive once to the operand and returns its result unchanged"), Err(e) => { std::mem::forget(e); assert!(false, "never Err") } } }
// @obligation owners=C10 fn=eval_f64::ast::eval/Cos exact=1
#[kani::proof]
#[kani::stub(f64::cos, s_cos)]
fn step_cos() { let a: f64 = kani::any();
    match eval(Node::Cos(num(a))) { Ok(v) => assert!(once1(3, a, v), "applies the primitive once to the operand and returns its result unchanged"), Err(e) => { std::mem::forget(e); assert!(false, "never Err") } } }
// @obligation owners=C10 fn=eval_f64::ast::eval/Tan exact=1
#[kani::proof]
#[kani::stub(f64::tan, s_tan)]
fn step_tan() { let a: f64 = kani::any();
    match eval(Node::Tan(num(a))) { Ok(v) => assert!(once1(4, a, v), "applies the primitive once to the operand and returns its result unchanged"), Err(e) => { std::mem::forget(e); assert!(false, "never Err") } } }
// @obligation owners=C10 fn=eval_f64::ast::eval/Sinh exact=1
#[kani::proof]
#[kani::stub(f64::sinh, s_sinh)]
fn step_sinh() { let a: f64 = kani::any();
    match eval(Node::Sinh(num(a))) { Ok(v) => assert!(once1(5, a, v), "applies the primitive once to the operand and returns its result unchanged"), Err(e) => { std::mem::forget(e); assert!(false, "never Err") } } }
// @obligation owners=C10 fn=eval_f64::ast::eval/Cosh exact=1
#[kani::proof]
#[kani::stub(f64::cosh, s_cosh)]
fn step_cosh() { let a: f64 = kani::any();
    match eval(Node::Cosh(num(a))) { Ok(v) => assert!(once1(6, a, v), "applies the primitive once to the operand and returns its result unchanged"), Err(e) => { std::mem::forget(e); assert!(false, "never Err") } } }
// @obligation owners=C10 fn=eval_f64::ast::eval/Tanh exact=1
#[kani::proof]
#[kani::stub(f64::tanh, s_tanh)]
fn step_tanh() { let a: f64 = kani::any();
    match eval(Node::Tanh(num(a))) { Ok(v) => assert!(once1(7, a, v), "applies the primitive once to the operand and returns its result unchanged"), Err(e) => { std::mem::forget(e); assert!(false, "never Err") } } }
// @obligation owners=C10 fn=eval_f64::ast::eval/Asin exact=1
#[kani::proof]
#[kani::stub(f64::asin, s_asin)]
fn step_asin() { let a: f64 = kani::any();
    match eval(Node::Asin(num(a))) { Ok(v) => assert!(once1(8, a, v), "applies the primitive once to the operand and returns its result unchanged"), Err(e) => { std::mem::forget(e); assert!(false, "never Err") } } }
// @obligation owners=C10 fn=eval_f64::ast::eval/Acos exact=1
#[kani::proof]
#[kani::stub(f64::acos, s_acos)]
fn step_acos() { let a: f64 = kani::any();
    match eval(Node::Acos(num(a))) { Ok(v) => assert!(once1(9, a, v), "applies the primitive once to the operand and returns its result unchanged"), Err(e) => { std::mem::forget(e); assert!(false, "never Err") } } }
// @obligation owners=C10 fn=eval_f64::ast::eval/Atan exact=1
#[kani::proof]
#[kani::stub(f64::atan, s_atan)]
fn step_atan() { let a: f64 = kani::any();
    match eval(Node::Atan(num(a))) { Ok(v) => assert!(once1(10, a, v), "applies the primitive once to the operand and returns its result unchanged"), Err(e) => { std::mem::forget(e); assert!(false, "never Err") } } }
// @obligation owners=C10,C13 fn=eval_f64::ast::eval/Arsinh exact=1
#[kani::proof]
#[kani::stub(f64::asinh, s_asinh)]
fn step_arsinh() { let a: f64 = kani::any();
    match eval(Node::Arsinh(num(a))) { Ok(v) => assert!(once1(11, a, v), "applies the primitive once to the operand and returns its result unchanged"), Err(e) => { std::mem::forget(e); assert!(false, "never Err") } } }
// @obligation owners=C10,C13 fn=eval_f64::ast::eval/Arcosh exact=1
#[kani::proof]
#[kani::stub(f64::acosh, s_acosh)]
fn step_arcosh() { let a: f64 = kani::any();
    match eval(Node::Arcosh(num(a))) { Ok(v) => assert!(once1(12, a, v), "applies the primitive once to the operand and returns its result unchanged"), Err(e) => { std::mem::forget(e); assert!(false, "never Err") } } }
// @obligation owners=C10,C13 fn=eval_f64::ast::eval/Artanh exact=1
#[kani::proof]
#[kani::stub(f64::atanh, s_atanh)]
fn step_artanh() { let a: f64 = kani::any();
    match eval(Node::Artanh(num(a))) { Ok(v) => assert!(once1(13, a, v), "applies the primitive once to the operand and returns its result unchanged"), Err(e) => { std::mem::forget(e); assert!(false, "never Err") } } }
// @obligation owners=C10 fn=eval_f64::ast::eval/Ln exact=1
#[kani::proof]
#[kani::stub(f64::ln, s_ln)]
fn step_ln() { let a: f64 = kani::any();
    match eval(Node::Ln(num(a))) { Ok(v) => assert!(once1(14, a, v), "applies the primitive once to the operand and returns its result unchanged"), Err(e) => { std::mem::forget(e); assert!(false, "never Err") } } }
// @obligation owners=C10 fn=eval_f64::ast::eval/Exp exact=1
#[kani::proof]
#[kani::stub(f64::exp, s_exp)]
fn step_exp() { let a: f64 = kani::any();
    match eval(Node::Exp(num(a))) { Ok(v) => assert!(once1(15, a, v), "applies the primitive once to the operand and returns its result unchanged"), Err(e) => { std::mem::forget(e); assert!(false, "never Err") } } }
// @obligation owners=C10 fn=eval_f64::ast::eval/Exp2 exact=1
#[kani::proof]
#[kani::stub(f64::exp2, s_exp2)]
fn step_exp2() { let a: f64 = kani::any();
    match eval(Node::Exp2(num(a))) { Ok(v) => assert!(once1(16, a, v), "applies the primitive once to the operand and returns its result unchanged"), Err(e) => { std::mem::forget(e); assert!(false, "never Err") } } }

// @obligation owners=C10 fn=eval_f64::ast::eval/Lb exact=1
#[kani::proof]
#[kani::stub(f64::log, s_log)]
#[kani::stub(f64::log2, s_log2)]
fn step_lb() { let a: f64 = kani::any();
    match eval(Node::Lb(num(a))) { Ok(v) => assert!(once2(21, a, 2.0, v) || once1(17, a, v), "lb(x) = log(x, 2) or log2(x)"), Err(e) => { std::mem::forget(e); assert!(false, "never Err") } } }
// @obligation owners=C05,C10,C13 fn=eval_f64::ast::eval/Pow exact=1
#[kani::proof]
#[kani::stub(f64::powf, s_powf)]
fn step_pow() { let a: f64 = kani::any(); let b: f64 = kani::any();
    match eval(Node::Pow(num(a), num(b))) { Ok(v) => assert!(once2(20, a, b, v), "x ^ y = powf(x, y): base first"), Err(e) => { std::mem::forget(e); assert!(false, "never Err") } } }
// @obligation owners=C10 fn=eval_f64::ast::eval/Root exact=1
#[kani::proof]
#[kani::stub(f64::powf, s_powf)]
fn step_root() { let n: f64 = kani::any(); let x: f64 = kani::any();
    // full domain: powf is applied once, its base is the SECOND argument, its result is returned unchanged
    match eval(Node::Root(num(n), num(x))) { Ok(v) => assert!(unsafe { CALLS == 1 && TAG == 20 && same(A0, x) && same(v, RES) }, "root(n, x) = powf(x, _)"), Err(e) => { std::mem::forget(e); assert!(false, "never Err") } } }
// @obligation owners=C10 fn=eval_f64::ast::eval/Root bounded="n an integer of magnitude at most 16 (exponent is 1/n)"
#[kani::proof]
#[kani::stub(f64::powf, s_powf)]
fn step_root_exponent_bounded() { let i: i8 = kani::any(); kani::assume(i >= -16 && i <= 16); let n = i as f64; let x: f64 = kani::any();
    match eval(Node::Root(num(n), num(x))) { Ok(v) => assert!(once2(20, x, 1.0 / n, v), "root(n, x) = x ^ (1/n)"), Err(e) => { std::mem::forget(e); assert!(false, "never Err") } } }
// @obligation owners=C10 fn=eval_f64::ast::eval/Log exact=1
#[kani::proof]
#[kani::stub(f64::log, s_log)]
fn step_log() { let x: f64 = kani::any(); let b: f64 = kani::any();
    match eval(Node::Log(num(x), num(b))) { Ok(v) => assert!(once2(21, x, b, v), "log(x, b) = log_b(x): argument first, base second"), Err(e) => { std::mem::forget(e); assert!(false, "never Err") } } }
// @obligation owners=C10 fn=eval_f64::ast::eval/Atan2 exact=1
#[kani::proof]
#[kani::stub(f64::atan2, s_atan2)]
fn step_atan2() { let y: f64 = kani::any(); let x: f64 = kani::any();
    match eval(Node::Atan2(num(y), num(x))) { Ok(v) => assert!(once2(22, y, x, v), "atan2(y, x)"), Err(e) => { std::mem::forget(e); assert!(false, "never Err") } } }

// @obligation owners=C10,C15 fn=eval_f64::ast::eval/Sign exact=1
#[kani::proof]
fn step_sign() { let a: f64 = kani::any();
    match eval(Node::Sign(num(a))) { Ok(v) => {
        if a > 0.0 { assert!(v == 1.0) } else if a < 0.0 { assert!(v == -1.0) } else if a == 0.0 { assert!(v == 0.0, "sgn(0) = 0") }
    }, Err(e) => { std::mem::forget(e); assert!(false, "never Err") } } }

// ---- value-dependent loops: iteration bounds by unwinding assertions over the full operand domain (C02, C01) ----
// @obligation owners=C01,C02 fn=eval_f64::ast::eval/Factorial
#[kani::proof]
#[kani::unwind(172)]
#[kani::stub(f64::sin, s_sin)]
#[kani::stub(f64::powf, s_powf)]
fn step_factorial_terminates() { let a: f64 = kani::any();
    // unwinding assertions on: the product loop runs at most 170 times for every double; gamma() has no loop
    match eval(Node::Factorial(num(a))) { Ok(_) => {}, Err(e) => { std::mem::forget(e); assert!(false, "x! never fails") } } }
// @obligation owners=C10 fn=eval_f64::ast::eval/Factorial tier=thorough bounded="integral arguments 0..=6 (value of n!)"
#[kani::proof]
#[kani::unwind(8)]
fn step_factorial_small_values() { let n: u8 = kani::any(); kani::assume(n <= 6);
    let mut f: f64 = 1.0; let mut i = 2u8; while i <= n { f *= i as f64; i += 1; }
    match eval(Node::Factorial(num(n as f64))) { Ok(v) => assert!(v == f, "n! of a small integer"), Err(e) => { std::mem::forget(e); assert!(false) } } }
// @obligation owners=C01,C02 fn=eval_f64::ast::eval/LambertW
#[kani::proof]
#[kani::unwind(130)]
#[kani::stub(f64::exp, s_exp)]
#[kani::stub(f64::log10, s_log10)]
fn step_lambert_w_terminates() { let a: f64 = kani::any();
    // at most 128 Halley iterations for every double (incl. inf and NaN); Err below -1/e is allowed
    match eval(Node::LambertW(num(a))) { Ok(_) => {}, Err(e) => std::mem::forget(e) } }
// @obligation owners=C01,C02 fn=eval_f64::ast::eval/ILog
#[kani::proof]
#[kani::unwind(67)]
#[kani::stub(f64::log10, s_log10)]
fn step_ilog_terminates() { let a: f64 = kani::any(); let b: f64 = kani::any();
    // at most 64 iterations for every pair of doubles and every behaviour of log10
    match eval(Node::ILog(num(a), num(b))) { Ok(_) => {}, Err(e) => std::mem::forget(e) } }

// ---- aggregates (C11): only the single-argument path is within CBMC's reach (the fold over a cloned
// Vec<Node> does not finish for two symbolic arguments in 10 minutes); arity >= 2 of eval_f64 is NOT claimed
// @obligation owners=C11 fn=eval_f64::ast::eval/Min bounded="arity 1"
#[kani::proof]
#[kani::unwind(4)]
fn agg_min_single() { let a: f64 = kani::any();
    match eval(Node::Min(Arc::new(vec![Node::Number(a)]))) { Ok(m) => assert!(same(m, a), "min of one argument"), Err(e) => { std::mem::forget(e); assert!(false) } } }
// @obligation owners=C11 fn=eval_f64::ast::eval/Max bounded="arity 1"
#[kani::proof]
#[kani::unwind(4)]
fn agg_max_single() { let a: f64 = kani::any();
    match eval(Node::Max(Arc::new(vec![Node::Number(a)]))) { Ok(m) => assert!(same(m, a), "max of one argument"), Err(e) => { std::mem::forget(e); assert!(false) } } }

// ---- the tokenizer on concrete literals (point checks: CBMC cannot run the tokenizer on symbolic text) - a second line for the literal arms
fn first_token(text: &str) -> Option<super::token::Token> { super::tokenizer::Tokenizer::new(text).next() }
// @obligation owners=C05,C19 fn=eval_f64::tokenizer::Tokenizer::next/literal bounded="the one literal 9.299999999999999 (16 digits, above 2^53 as an integer; concrete): the correctly rounded double"
#[kani::proof]
#[kani::unwind(40)]
fn tok_literal_16_digits() { assert!(matches!(first_token("9.299999999999999"), Some(super::token::Token::Num(f)) if f.to_bits() == (9.299999999999999f64).to_bits()), "the literal is the correctly rounded double"); }
// @obligation owners=C05,C13 fn=eval_f64::tokenizer::Tokenizer::next/superscript bounded="the one superscript run ¹⁰ (concrete)"
#[kani::proof]
#[kani::unwind(40)]
fn tok_superscript_one_zero() { assert!(matches!(first_token("¹⁰"), Some(super::token::Token::Superscript(f)) if f == 10.0), "the run ¹⁰ is the exponent 10"); }

// ---- canaries: must FAIL --------------------------------------------------------------------------------------
#[kani::proof]
fn canary_add_is_sub() { let a: f64 = kani::any(); let b: f64 = kani::any();
    match eval(Node::Add(num(a), num(b))) { Ok(v) => assert!(same(v, a - b), "canary"), Err(e) => std::mem::forget(e) } }
#[kani::proof]
fn canary_rustc_overflow_checks_on() { let a: i64 = kani::any(); let b: i64 = kani::any(); let c = a + b; assert!(c == c); }
