#!/usr/bin/env python3
"""Markdown table of the seeded changes (seeded/<id>/meta.json) and what the checks said about each: DESIGN.md 14.11.

    python3 tools/seed_table.py            print the table
"""
import glob
import json
import os
import re

VERIF = os.path.dirname(os.path.dirname(os.path.abspath(__file__)))

# one line per seed: what the change is and what it needs to show up (written from patch.diff and the sub-agent's notes)
WHAT = {
    'C01-1': ('eval_i64 `%`: `wrapping_rem` -> plain `%`', 'only `i64::MIN % -1` (panics in debug and release)'),
    'C01-2': ('eval_f64 `med`: NaN guard replaced by `retain(!is_nan)`', 'all arguments NaN: empty vector, index panic'),
    'C02-1': ('eval_f64 Lambert W: `.min(128)` clamp removed', '`w(1/0)`: 2^31 iterations'),
    'C02-2': ('eval_i64 `max`: argument evaluated twice (`if eval(a.clone())? > r { r = eval(a)? }`)', 'nested `max(max(..))`: exponential time, every value unchanged'),
    'C03-1': ('parser: empty argument list accepted when `)` follows', '`min()`'),
    'C03-2': ('`parse`: end test reads one more token instead of the current one', 'trailing junk after one extra token'),
    'C04-1': ('eval_number prefix `+`: operand parsed at Additive instead of Negative level', '`+2-1*..`: the prefix swallows a whole sum'),
    'C04-2': ('superscript given Functional precedence', '`2^3²`-like mixes'),
    'C05-1': ('eval_f64 `round` re-implemented as `(|x|+0.5).floor().copysign(x)`', '0.49999999999999994 and |x| >= 2^52'),
    'C05-2': ('eval_f64 wrapper returns `value + 0.0`', 'a result of -0.0'),
    'C06-1': ('eval_i64 `2^e` short-cut `1 << e` for e < 64', '`2^63` (wraps to MIN)'),
    'C06-2': ('eval_i64 shift count cast to u32 before the range test', 'negative counts / counts >= 2^32'),
    'C07-1': ('eval_decimal `%` re-implemented as `a - b*trunc(a/b)`', 'huge quotients: Err although the remainder is representable'),
    'C07-2': ('eval_decimal tokenizer drops fractional digits beyond 29 characters', 'long literals'),
    'C08-1': ('eval_complex `abs` = `norm_sqr().sqrt()`', 'components above 1e154 (overflow to inf)'),
    'C08-2': ('eval_complex wrapper zeroes components below EPSILON', 'tiny but exact results, e.g. `1e-17`'),
    'C09-1': ('eval_number Integer `/`: remainder in i128, `wrapping_div`', '`MIN / -1` becomes Integer(MIN)'),
    'C09-2': ('eval_number `round` re-implemented via floor/copysign', '0.49999999999999994, |x| >= 2^52'),
    'C10-1': ('`Number::from`: integrality test with an EPSILON tolerance around `round()`', 'values within 2.2e-16 of an integer'),
    'C10-2': ('eval_decimal `round`: MidpointAwayFromZero strategy', 'ties (property: to even)'),
    'C11-1': ('eval_i64 `med` of an even count: `low + (high-low)/2`', 'negative odd sums (truncation direction), overflow of high-low'),
    'C11-2': ('eval_number `min`: Integer/Float pair compared after truncating the Float', '`min(3, 2.5)`'),
    'C12-1': ('implicit multiplication: right operand parsed at Power level', '`2(3)!`, `2 3^2`-like inputs'),
    'C12-2': ('superscript arm continues with an implicit product', '`2²3`'),
    'C13-1': ('eval_i64 wrapper: `split_ascii_whitespace`', 'non-ASCII white space (U+00A0, U+2003)'),
    'C13-2': ('eval_number prefix `+`: operand parsed at Multiplicative level', '`+2*3!`-like inputs (`+x` no longer a synonym of `x`)'),
    'C14-1': ('eval_number `Parser::new`: a Float placeholder is canonicalised with `into()`', 'placeholder Float(2.0) becomes Integer(2)'),
    'C14-2': ('`@` arm continues with an implicit product', '`@(2)`, `@pi`'),
    'C17-1': ('`#[cfg(feature = "eval_i64")]` digit limit inside `deserialize_superscript_number`', 'builds with eval_i64 enabled, exponents of 19+ digits'),
    'C17-2': ('`ParseError` export no longer enabled by eval_complex alone', '`--features eval_complex` build'),
    'C18-1': ('`Number::from(f64)`: upper bound inclusive again', 'exactly 2^63'),
    'C18-2': ('`Number::from(i64)` routed through the f64 conversion', '|v| > 2^53'),
    'C02-3': ('eval_i64 `n!`: overflow test moved out of the loop (`Option` accumulator, `and_then`)', '`9223372036854775807!` loops 2^63 times; every returned value unchanged'),
    'C03-3': ('eval_number: the literal-after-literal guard narrowed to Integer literals', '`1.2.3` (lexes as 1.2 and .3) evaluates to 0.36'),
    'C03-4': ('eval_i64 tokenizer: a lone `<` / `>` lexes as a shift (`next_if_eq`)', '`1<4` = 16'),
    'C10-3': ('`Number::from(f64)`: `< f64::EPSILON` instead of `== 0.0` (found independently of C09-4)', '`exp(-40)` = Integer(0)'),
    'C10-4': ('eval_i64 `exp(x)` as `E.powi(x)`', '`exp(33)`, `exp(35)`, `exp(36)` off by 1..6'),
    'C13-3': ('eval_number wrapper: `split_ascii_whitespace`', 'U+00A0, U+2009, U+3000 ..'),
    'C13-4': ('eval_i64 prefix `+`: operand parsed at Multiplicative level', '`-+2^2` = -4 while `-2^2` = 4'),
    'C15-1': ('eval_number exact factorial range `0..20` (exclusive)', '`20!` becomes a Float while eval_i64 gives the integer'),
    'C15-2': ('eval_decimal implicit multiplication: right factor parsed at Power level', '`2(3)^2` = 36 in eval_decimal, 18 in eval_f64'),
    'C19-1': ('eval_number tokenizer: point-free literals of 19+ characters become Float', '`9223372036854775807`, `0000000000000000000007`'),
    'C19-2': ('eval_decimal tokenizer: literals with a 29-digit mantissa rounded to 28 digits', 'printed results such as `50/7` do not read back'),
    'C20-1': ('eval_i64 `/`: shift short-cut when the divisor *node* is a power-of-two literal', '`(0-7)/@` with 2 gives -4, `(0-7)/(1+1)` gives -3'),
    'C20-2': ('eval_number wrapper passes a Float result through `Number::from`', '`(0.5*40)!` vs `@!` with Integer(20)'),
    'C01-3': ('eval_number `med`: NaN guard written as `results.contains(&Number::Float(f64::NAN))`', 'NaN never equals NaN: the guard is dead, `med(@,1)` with a NaN placeholder panics in the sort'),
    'C01-4': ('eval_complex parser: catch-all arm of `convert_token_to_node` returns `Ok(left_expr)`', 'a function name directly after `@`, `π` or a superscript: the climbing loop never consumes it, the call never returns'),
    'C02-4': ('eval_decimal parser: catch-all arm of `convert_token_to_node` returns `Ok(left_expr)`', '`pisqrt(4)`, `@abs(1)`: never returns'),
    'C03-5': ('eval_f64 `parse`: end test through a new `Tokenizer::is_exhausted()` on the character stream', 'forgets the one lookahead token: `1+2)` = 3 (two cooperating sites)'),
    'C05-3': ('eval_f64 `^`: `base.sqrt()` when the exponent is exactly 0.5', '`(-0)^0.5` = -0.0, `(-(1/0))^0.5` = NaN'),
    'C05-4': ('eval_f64 parser: `x / x` folded to the literal 1 when both subtrees are equal', '`0/0`, `(1/0)/(1/0)` = 1 instead of NaN'),
    'C06-3': ('eval_i64 tokenizer: literal accumulated numerically, the final `+ digit` unchecked', '`9223372036854775808` wraps / panics instead of Err'),
    'C06-4': ('eval_i64 `n!`: guard `n > 21` and an unchecked `(2..=n).product()`', 'exactly `21!`: wraps (release) / panics (debug)'),
    'C07-3': ('eval_decimal unary minus via `set_sign_negative(true)`', 'a negative operand: `-(0.1-0.3)` = -0.2'),
    'C07-4': ('eval_decimal tokenizer: point-free literals through `parse::<i64>()`', 'integer literals in 2^63 .. 2^96-1 are rejected'),
    'C09-3': ('eval_number Integer `/`: zero test + `wrapping_rem` / `wrapping_div`', '`MIN / -1` = Integer(MIN)'),
    'C09-4': ('`Number::from(f64)`: range test as `(MIN..=MAX).contains(..)`', 'exactly 2^63 becomes Integer(i64::MAX)'),
    'C10-5': ('eval_f64 `x!`: branches flattened to `x % 1.0 > 0.0` first', 'negative non-integers: NaN instead of Gamma(x+1)'),
    'C11-3': ('eval_number `min` / `max`: Integers compared through their double values', 'two Integers above 2^53 that round to the same double: the result depends on the argument order'),
    'C13-5': ('eval_i64 prefix `+`: operand parsed at Additive level', '`12/+2*3` = 2'),
    'C04-3': ('eval_number `^`: exponent parsed with `parse_number()`', '`2^3!` = (2^3)!'),
    'C04-4': ('eval_i64 `get_oper_prec`: superscripts classed Functional', '`-2²` = -4, `2^3²` = 512'),
    'C08-3': ('eval_complex `log(x, b)` as `x.log(b.re)`', 'a base with an imaginary part: `log(8,2i)`'),
    'C08-4': ('eval_complex wrapper zeroes components below 1e-15', 'tiny exact results'),
    'C12-3': ('eval_number implicit multiplication: right factor parsed at Power level', '`2(3)^2` = 36'),
    'C12-4': ('eval_i64 wrapper inlines the placeholder as text `(p)`', '`2@`, `@(3)` become products instead of Err'),
    'C14-3': ('eval_number parser: placeholder stored as `Option` and `take()`n by the first `@`', 'two `@` in one expression: `@+@`'),
    'C14-4': ('eval_decimal wrapper passes `placeholder.normalize()`', 'a placeholder with trailing zeros loses its scale'),
    'C15-3': ('eval_number Integer `^` Integer through `powi` / `powf` and `Number::from`', 'powers above 2^53: `3^34` off by one'),
    'C15-4': ('eval_decimal tokenizer: `Decimal::from_str_exact`', 'literals with more than 28 fractional digits are rejected'),
    'C17-3': ('`OperatorCategory` split into two cfg-selected definitions, the one without eval_i64 lists Negative before Power', 'the 15 feature subsets without eval_i64: `-2^2` = -4'),
    'C17-4': ('`gamma` moved to `utils/gamma.rs`, gated on eval_f64 only', 'subsets with eval_number but without eval_f64 do not compile'),
    'C18-3': ('eval_number `trunc`: `Number::from(n as i64)`', '|x| >= 2^63, infinities, NaN become Integers'),
    'C19-3': ('eval_number tokenizer: pointed literals through `.into()`', '`2.0` becomes Integer(2)'),
    'C19-4': ('eval_f64 tokenizer: fast path `digits as u64 as f64 / 10^k` for up to 16 digits', '16-digit literals above 2^53 are rounded twice'),
    'C20-3': ('eval_f64 `^`: `sqrt` when the exponent *node* is the literal 0.5', '`x^@` with 0.5 vs `x^(1/2)` for x = -0.0, -inf'),
    'C01-5': ('eval_decimal tokenizer, `.DIGITS` literal through `Decimal::from_i128_with_scale` (the panicking constructor)', '29 or more fractional digits: panic'),
    'C01-6': ('eval_f64 `med`: NaN handling moved into the sort comparator (`unwrap_or(Greater)`, not a total order)', "21 or more arguments with a NaN: std's sort panics"),
    'C02-5': ('eval_number `n!`: `(2..=n).fold(Some(1), checked_mul)` - no early exit', '`9223372036854775807!` runs 2^63 iterations, every value unchanged'),
    'C02-6': ('eval_i64 parser: `^` and superscript arms merged, the superscript path no longer consumes its token', '`2²` never returns'),
    'C03-6': ('`deserialize_superscript_number` rewritten with `by_ref().map_while(..)` (all five evaluators)', 'the character after an exponent is swallowed: `2²)` = 4'),
    'C03-7': ('eval_number parser: the literal-after-literal check removed', '`1.2.3` = 0.36'),
    'C04-5': ('eval_number prefix `+`: operand parsed at Additive level', '`12/+2*3` = 2'),
    'C04-6': ('eval_f64 `^`: `(a^b)^c` computed as `a.powf(b*c)`', 'negative base, even inner and fractional outer exponent: `-8^2^0.5` = -8'),
    'C05-5': ('eval_f64 `sqrt(x)` delegated to the `root` arm (`powf(x, 0.5)`)', '`sqrt(-0)` = +0.0, `sqrt(-inf)` = +inf'),
    'C05-6': ('eval_f64 tokenizer: superscript arms merged, the exponent parsed as u32', 'a superscript exponent of 2^32 or more: Err instead of a value'),
    'C06-5': ('eval_i64 `*`: returns 0 as soon as the left factor is 0, the right factor is not evaluated', '`0*(1/0)` = 0 instead of Err'),
    'C06-6': ('eval_i64 tokenizer: literal accumulated numerically, the final `+ digit` unchecked', '`9223372036854775808` wraps / panics'),
    'C07-5': ('eval_decimal tokenizer: trailing zeros trimmed through the decimal point', '`10.0*3` = 3'),
    'C07-6': ('eval_decimal `%` re-implemented as `a - trunc(a/b)*b`', 'quotients that round or overflow'),
    'C08-5': ('eval_complex `arcosh` written out as `ln(z + sqrt(z*z - 1))`', 'Re(z) < 0: the non-principal branch'),
    'C08-6': ('eval_complex wrapper drops a component below |z| * EPSILON', '`10000000000000000+i` loses its imaginary part'),
    'C09-5': ('`Number::from(f64)`: integrality through the round trip `(v as i64) as f64 == v`', 'exactly 2^63 becomes Integer(i64::MAX)'),
    'C09-6': ('eval_number wrapper passes the placeholder through `Number::from`', 'an integral Float placeholder enters as Integer: exact instead of IEEE arithmetic above 2^53'),
    'C10-6': ('eval_f64 `^`: whole exponents through `powi(exponent as i32)`', '|exponent| >= 2^31 saturates: `pow(-1, 2^31)` = -1'),
    'C10-7': ('eval_decimal `x!`: branches flattened to `x % 1 > 0` first', 'negative non-integers: Err instead of Gamma(x+1)'),
    'C11-4': ('eval_i64 `gcd`: stops evaluating once the running gcd is 1', '`gcd(9,4,1/0)` = 1 instead of Err'),
    'C11-5': ('eval_decimal `med`: `select_nth_unstable(mid)`, still reading `results[mid - 1]`', 'even counts of 18 or more arguments in some orders'),
    'C12-5': ('eval_decimal parser: `avg()` returns early, skipping the implicit product', '`avg()(3)` is rejected'),
    'C12-6': ('eval_number: the literal-after-literal check moved into `implicit_multiply`, keyed on the left *node* being a literal', '`(2)3` is rejected (a bracketed literal looks like a literal)'),
    'C13-6': ("eval_i64 tokenizer: the ten superscript arms merged into `'²' | '³' | '⁰'..='⁹'`", '`¹` (U+00B9) is outside the range: `2¹⁰` is rejected'),
    'C13-7': ('eval_f64: wrapper strips ASCII whitespace only, the tokenizer skips leading Unicode whitespace', 'non-ASCII blanks inside a number or name: `1\\u{a0}000+1`'),
    'C14-5': ('eval_number: new `Token::starts_operand()` (includes `@`, `pi`, `e`) used by `implicit_multiply`', '`2@` becomes a product'),
    'C14-6': ('eval_i64 wrapper caches the last parsed AST per thread', 'a second call with the same text and another placeholder reads the old value'),
    'C15-5': ('eval_number `get_oper_prec`: `!` classed Power', '`2^3!` = (2^3)!, `-3!` differs from eval_i64'),
    'C15-6': ('eval_complex `abs` = `norm_sqr().sqrt()`', 'real operands above 1.3e154 overflow to inf'),
    'C19-5': ('eval_number tokenizer: point-free literals through `parse::<f64>()` and `Number::from`', 'literals above 2^53 lose their low digits'),
    'C19-6': ('eval_f64 wrapper rejects expressions longer than 256 bytes', 'the printed form of `2^1000` (302 characters) does not read back'),
    'C20-4': ('eval_number parser cancels a double unary minus', '`-(-x)` with x = i64::MIN: Integer(MIN) vs Float(-2^63)'),
    'C20-5': ('eval_f64 `^`: `powi` when the exponent *node* is a whole-number literal', '`1.3^(1+2)` vs `1.3^@` with 3.0'),
    'C05-7': ('eval_f64 `^`: `base.sqrt()` when the exponent is exactly 0.5', '`(-1/0)^0.5` = NaN, `(-0)^0.5` = -0.0'),
    'C05-8': ('eval_f64 wrapper: `if result == 0.0 { 0.0 } else { result }`', 'a result of -0.0 loses its sign'),
    'C06-7': ('eval_i64 shifts through `checked_shl(count as u32)` / `checked_shr`', 'counts congruent to 0..63 mod 2^32: `1<<4294967296` = 1'),
    'C06-8': ('eval_i64 tokenizer: literal accumulated in a u64 and cast to i64', 'literals in 2^63 .. 2^64-1 wrap'),
    'C04-7': ('eval_number prefix `+`: operand parsed at Additive level', '`2^+3*4` = 4096'),
    'C04-8': ('eval_i64 `*`: `(a/b)*c` evaluated as `a*c/b`', 'non-exact quotients: `7/2*4` = 14'),
    'C09-7': ('`Number::from(f64)`: round-trip test `(v as i64) as f64 == v`', 'exactly 2^63 becomes Integer(i64::MAX)'),
    'C09-8': ('eval_number wrapper passes a Float placeholder through `Number::from`', '|@| >= 2^53 or @ = -0.0'),
    'C11-6': ('eval_decimal `med`: `select_nth_unstable`', 'even counts of 18 or more arguments in some orders'),
    'C11-7': ('eval_i64 parser: the six aggregate argument blocks folded into one helper that rejects an empty list', '`avg()` is Err instead of 0'),
    'C03-8': ('eval_f64 `find_item_list`: a `)` directly after a `,` ends the list', '`max(1,2,)` = 2'),
    'C03-9': ("`superscript_digit_to_digit` as a range `'⁰'..='⁹'` (all five evaluators)", 'U+2071..U+2073 count as digits inside a run: `2²ⁱ`'),
    'C10-8': ('eval_decimal `x!`: fractional test through `scale() > 0`', 'integer-valued decimals with a scale (`3.0!`) go through gamma'),
    'C13-8': ('eval_number parser: superscript `²` builds `Multiply(x, x)`', '`2.0²` is Float(4.0) while `2.0^2` is Integer(4)'),
    'C20-6': ('eval_decimal `*`: returns `Decimal::ZERO` without evaluating the other side when an operand *node* is a literal zero', '`(1-1)*(1/0)` = Err but `@*(1/0)` with 0 = Ok(0); `1.50*(1-1)` = 0.00 but `1.50*@` = 0'),
    'C18-4': ('`Number::from(f64)`: integrality test `.abs() < f64::EPSILON` (found independently of C10-3)', 'positive doubles below EPSILON (5e-324, 1e-300): Integer(0)'),
    'C07-7': ('eval_decimal `-`: `saturating_sub` instead of `checked(..checked_sub(..))`', 'a difference outside the Decimal range: `79228162514264337593543950335-(-1)` = Ok(MAX) instead of Err'),
    'C08-7': ('eval_complex `root(n, x)`: real-index fast path `from_polar(|x|^(1/n), atan(im/re)/n)`', 'a radicand with Re(x) < 0: `root(2,4i-3)` = 2-1i (principal value 1+2i)'),
    'C11-8': ('eval_i64 `med` of an even count: `lo + (hi - lo) / 2` with checked_sub (found independently of C11-1)', 'two middle values with a negative odd sum: `med(-3,2)` = -1'),
}


def main():
    rows = []
    for p in sorted(glob.glob(os.path.join(VERIF, 'seeded', '*', 'meta.json'))):
        m = json.load(open(p))
        name = m['name']
        pid = m['property']
        ch = m.get('checks', {}).get(pid, {})
        ex = ch.get('exit')
        obl = []
        for ln in ch.get('lines', []):
            mm = re.match(r'obligation (\S+) failed: .*\[(\w+)\]', ln)
            if mm and (mm.group(1), mm.group(2)) not in obl:
                obl.append((mm.group(1), mm.group(2)))
        und = [ln for ln in ch.get('lines', []) if ln.startswith('UNDECIDED')]
        if ex == 1:
            verdict = 'VIOLATION: ' + ', '.join('`%s` [%s]' % o for o in obl[:3])
            if any('replay' in ln and 'no-failing-input-found' not in ln and ln.startswith('VIOLATION') for ln in ch.get('lines', [])):
                verdict += ' (native replay)'
        elif ex == 2:
            verdict = 'UNDECIDED (exit 2): ' + (re.sub(r'@ /tmp\S+', '', und[0].split('reason=', 1)[-1])[:140] if und else '')
        elif ex == 0:
            verdict = '**missed** (exit 0)'
        else:
            verdict = 'not run'
        what, needs = WHAT.get(name, ('', ''))
        rows.append('| %s | %s | %s | %s |' % (name, what, needs, verdict))
    out = ['| seed | change | needs | `./check %s` on the changed tree |' % '<its property>', '|---|---|---|---|'] + rows
    det = sum(1 for r in rows if '| VIOLATION' in r)
    und = sum(1 for r in rows if '| UNDECIDED' in r)
    mis = sum(1 for r in rows if '**missed**' in r)
    out.append('')
    out.append('%d seeded changes: %d reported as VIOLATION of their property, %d UNDECIDED (exit 2: the changed text is outside what the extraction / contract headers '
               'can read - never an alarm, never a pass), %d missed (exit 0).' % (len(rows), det, und, mis))
    text = '\n'.join(out)
    import sys
    if '--write' in sys.argv:
        d = os.path.join(VERIF, 'DESIGN.md')
        s = open(d).read()
        a = s.index('<!-- SEED_TABLE_BEGIN -->') + len('<!-- SEED_TABLE_BEGIN -->')
        b = s.index('<!-- SEED_TABLE_END -->')
        open(d, 'w').write(s[:a] + '\n' + text + '\n' + s[b:])
    else:
        print(text)


if __name__ == '__main__':
    main()
