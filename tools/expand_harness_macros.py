#!/usr/bin/env python3
"""Authoring aid: expands the macro_rules! harness templates of a kani/*.rs file into plain functions, so that
every harness is an ordinary item (Kani's concrete playback inserts its unit test next to the harness; inside a
macro body that does not compile).  Usage: expand_harness_macros.py kani/x.rs  (rewrites the file in place)."""
import re
import sys

path = sys.argv[1]
s = open(path).read()
macros = {}
for m in re.finditer(r'macro_rules!\s*(\w+)\s*\{\s*\(([^)]*)\)\s*=>\s*\{(.*?)\n    \};\n\}\n', s, flags=re.S):
    name, params, body = m.group(1), m.group(2), m.group(3)
    pn = re.findall(r'\$(\w+):\w+', params)
    macros[name] = (pn, body, m.group(0))
for name, (pn, body, whole) in macros.items():
    s = s.replace(whole, '')
    def expand(mm):
        args = [a.strip() for a in mm.group(1).split(',')]
        b = body
        for p, a in zip(pn, args):
            b = b.replace('$' + p, a)
        return '\n'.join(l[8:] if l.startswith('        ') else l for l in b.split('\n')).strip('\n')
    s = re.sub(r'^' + name + r'!\(([^;]*)\);', expand, s, flags=re.M)
open(path, 'w').write(s)
