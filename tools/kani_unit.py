"""Run one Kani group: overlay copy of the unmodified crate + harness modules, `cargo kani`, results -> obligations.

Harness files (/verif/kani/*.rs) carry their own metadata in comments directly above `#[kani::proof]`:

    // @obligation owners=C18,C09 fn=Number::from(f64) [bounded=<text>] [tier=thorough]
    // @replay eval_i64 "({0})+({1})"            (optional: public-API rendering of the counterexample)

Functions named canary_* must FAIL.
"""
import hashlib
import json
import os
import re
import shutil
import subprocess
import sys
import time

sys.path.insert(0, os.path.dirname(os.path.abspath(__file__)))
from verus_unit import Undecided  # noqa: E402

VERIF = os.path.dirname(os.path.dirname(os.path.abspath(__file__)))


def parse_harness_file(path):
    """-> {harness: dict(owners, fn, bounded, tier, replay, line)}, assumptions"""
    src = open(path, encoding='utf-8').read().split('\n')
    out = {}
    meta = {}
    assumptions = []
    for i, ln in enumerate(src):
        s = ln.strip()
        m = re.match(r'//\s*@obligation\s+(.*)$', s)
        if m:
            meta = {}
            for kv in re.findall(r'(\w+)=("[^"]*"|\S+)', m.group(1)):
                meta[kv[0]] = kv[1].strip('"')
            continue
        m = re.match(r'//\s*@replay\s+(\w+)\s+"(.*)"\s*(.*)$', s)
        if m:
            meta['replay'] = dict(api=m.group(1), template=m.group(2), extra=m.group(3))
            continue
        m = re.match(r'(?:pub\s+)?fn\s+(\w+)\s*\(', s)
        if m and any('#[kani::proof' in src[j] for j in range(max(0, i - 6), i)):
            name = m.group(1)
            d = dict(owners=[p for p in meta.get('owners', '').split(',') if p], fn=meta.get('fn', ''),
                     bounded=meta.get('bounded'), tier=meta.get('tier', 'quick'), replay=meta.get('replay'), line=i + 1)
            out[name] = d
            meta = {}
        if 'kani::assume' in s and not s.startswith('//'):
            assumptions.append('kani::assume in %s:%d: %s' % (os.path.basename(path), i + 1, s[:120]))
        if '#[kani::stub' in s:
            assumptions.append('stub in %s:%d: %s' % (os.path.basename(path), i + 1, s[:120]))
    return out, assumptions


def build_overlay(repo, ov, mods, replace=None):
    """rsync Cargo.toml, Cargo.lock, src; append harness module lines; return sha256 map of the copied sources."""
    if os.path.exists(ov):
        shutil.rmtree(ov)
    os.makedirs(ov)
    for f in ('Cargo.toml', 'Cargo.lock'):
        if os.path.exists(os.path.join(repo, f)):
            shutil.copy(os.path.join(repo, f), os.path.join(ov, f))
    shutil.copytree(os.path.join(repo, 'src'), os.path.join(ov, 'src'))
    sha = {}
    for root, _, files in os.walk(os.path.join(ov, 'src')):
        for fn in files:
            p = os.path.join(root, fn)
            sha[os.path.relpath(p, ov)] = hashlib.sha256(open(p, 'rb').read()).hexdigest()
    for rel, harness_path, modname in mods:
        # the harness file is copied next to the module it is a child of (so that concrete playback can
        # add its unit test to the copy, never to /verif)
        shutil.copy(harness_path, os.path.join(ov, os.path.dirname(rel), modname + '.rs'))
        with open(os.path.join(ov, rel), 'a') as fh:
            fh.write('\n#[cfg(kani)] mod %s;\n' % modname)
    for rel, newfile in (replace or []):
        shutil.copy(newfile, os.path.join(ov, rel))
    os.makedirs(os.path.join(ov, '.cargo'), exist_ok=True)
    with open(os.path.join(ov, '.cargo', 'config.toml'), 'w') as fh:
        fh.write('[net]\noffline = true\n')
    return sha


def run_group(group, repo, scratch, tier='quick', seed=0):
    import importlib.util
    spec = importlib.util.spec_from_file_location('plan', os.path.join(VERIF, 'contracts', 'plan.py'))
    plan = importlib.util.module_from_spec(spec)
    spec.loader.exec_module(plan)
    g = plan.KANI_GROUPS[group]
    mods = [(rel, os.path.join(VERIF, hp), mn) for rel, hp, mn in g['mods']]
    harness = {}
    assumptions = []
    for rel, hp, mn in mods:
        h, a = parse_harness_file(hp)
        harness.update(h)
        assumptions += a
    selected = [n for n, d in harness.items() if d['tier'] == 'quick' or tier == 'thorough']
    if g.get('only'):
        selected = [n for n in selected if any(re.fullmatch(p, n) for p in g['only'])]
    if not selected:
        raise Undecided('kani group %s: no harness selected' % group)
    ov = os.path.join(scratch, 'ov_' + group)
    t0 = time.time()
    sha = build_overlay(repo, ov, mods, g.get('replace'))
    flags = ['-Z', 'unstable-options', '--output-format', 'terse', '-j', str(g.get('jobs', 8)),
             '--harness-timeout', str(g.get('timeout', 600)), '--export-json', os.path.join(ov, 'out.json')] + g.get('flags', [])
    if g.get('features') is not None:
        flags += ['--no-default-features', '--features', ','.join(g['features'])]
    modpath = {}
    for rel, hp, mn in mods:
        h, _ = parse_harness_file(hp)
        base = os.path.dirname(rel)[len('src/'):].replace('/', '::') if os.path.dirname(rel) != 'src' else ''
        for n in h:
            modpath[n] = (base + '::' if base else '') + mn + '::' + n
    for n in selected:
        flags += ['--harness', modpath[n]]
    flags += ['--exact']
    cmd = ['cargo', 'kani'] + flags
    # memoisation on (sources, harness text, flags)
    hk = hashlib.sha256()
    for k in sorted(sha):
        hk.update((k + sha[k]).encode())
    for rel, hp, mn in mods:
        hk.update(open(hp, 'rb').read())
    hk.update(' '.join(f for f in flags if not f.startswith(scratch)).encode())
    cdir = os.path.join(VERIF, 'build', 'cache')
    cfile = os.path.join(cdir, 'kani-' + hk.hexdigest() + '.json')
    res = None
    from_cache = False
    if os.environ.get('VERIF_NO_CACHE') != '1' and os.path.exists(cfile):
        try:
            res = json.load(open(cfile))
            from_cache = True
        except Exception:
            res = None
    log = ''
    if res is None:
        env = dict(os.environ, CARGO_NET_OFFLINE='true', CARGO_TARGET_DIR=os.path.join(ov, 'target'))
        p = subprocess.run(cmd, cwd=ov, capture_output=True, text=True, env=env)
        log = p.stdout[-6000:] + p.stderr[-3000:]
        try:
            res = json.load(open(os.path.join(ov, 'out.json')))
        except Exception:
            shutil.rmtree(ov, ignore_errors=True)
            raise Undecided('kani group %s produced no result (build error or tool failure): %s' % (group, log[-1500:]))
        res['_log_tail'] = log[-3000:]
        try:
            os.makedirs(cdir, exist_ok=True)
            tmp = cfile + '.tmp%d' % os.getpid()
            json.dump(res, open(tmp, 'w'))
            os.replace(tmp, cfile)
        except Exception:
            pass
    wall = time.time() - t0
    results = {r['harness_id'].split('::')[-1]: r for r in res.get('verification_results', {}).get('results', [])}
    props = {r['harness_id'].split('::')[-1]: r['property_details'] for r in res.get('property_details', [])}
    errs = {r['harness_id'].split('::')[-1]: r for r in res.get('error_details', [])}
    obligations = []
    canary_problems = []
    undecided = []
    solver_s = 0.0
    for c in res.get('cbmc', []):
        solver_s += c.get('cbmc_stats', {}).get('runtime_decision_procedure_s', 0.0) or 0.0
    for n in selected:
        d = harness[n]
        r = results.get(n)
        if r is None:
            undecided.append('kani harness %s/%s did not run (%s)' % (group, n, (errs.get(n) or {}).get('error_type', 'missing')))
            continue
        failed_checks = [c for c in r.get('checks', []) if c.get('status') == 'Failure']
        status = r.get('status')
        if n.startswith('canary_'):
            if status == 'Success':
                canary_problems.append('canary %s/%s verified although it must fail' % (group, n))
            continue
        pd = props.get(n, {})
        if pd.get('unsatisfiable', 0) or pd.get('uncovered', 0):
            undecided.append('kani harness %s/%s: a cover property is unsatisfiable (vacuity guard)' % (group, n))
        if status not in ('Success', 'Failure'):
            undecided.append('kani harness %s/%s ended with status %s' % (group, n, status))
            continue
        if status == 'Failure' and not failed_checks:
            et = (errs.get(n) or {})
            undecided.append('kani harness %s/%s failed without a failed check (%s / %s): timeout or out of memory'
                             % (group, n, et.get('error_type'), et.get('exit_status')))
            continue
        fails = []
        for c in failed_checks:
            kind = 'kani:' + (c.get('category') or 'assertion')
            fails.append(dict(fn=n, arm=None, kind=kind, text='%s @ %s:%s' % (c.get('description'), c.get('location', {}).get('file'), c.get('location', {}).get('line')),
                              message='%s (%s)' % (c.get('description'), c.get('category')), rendered=json.dumps(c)[:1200],
                              owners=d['owners'], harness=n, group=group, replay=d.get('replay')))
        obligations.append(dict(name='K:%s/%s' % (group, n), fn=n, arm=None, owners=d['owners'], failures=fails,
                                bounded=d.get('bounded'), function_label=d.get('fn') or n,
                                contract='Kani harness %s (%s:%d): asserts over kani::any() inputs%s'
                                         % (n, os.path.basename([hp for _, hp, _ in mods][0]), d['line'],
                                            '' if not d.get('bounded') else '  [BOUNDED: %s]' % d['bounded']),
                                time_s=(r.get('duration_ms') or 0) / 1000.0))
    tools = res.get('tools', {})
    out = dict(unit='kani:' + group, base_unit='kani:' + group, obligations=obligations, failures=[f for o in obligations for f in o['failures']],
               backend='kani %s / cbmc %s / %s' % (tools.get('kani'), tools.get('cbmc'), ','.join(s.get('name', '?') for s in tools.get('solvers', []))),
               assumptions=['[kani:%s] %s' % (group, a) for a in assumptions] + ['[kani:%s] flags %s' % (group, ' '.join(g.get('flags', [])))],
               smt_total_s=solver_s, wall_s=wall, cmd=' '.join(c if not c.startswith(scratch) else '<scratch>' + c[len(scratch):] for c in cmd),
               canary_problems=canary_problems, undecided=undecided, overlay=ov,
               extraction=dict(unit='kani:' + group, overlay_sha256=sha, harness_files=[hp for _, hp, _ in mods],
                               harnesses_run=len(selected), answered_from_memo=from_cache, wall_s=round(wall, 2)))
    if not any(o['failures'] for o in obligations):
        shutil.rmtree(ov, ignore_errors=True)
    if undecided and not out['failures']:
        raise Undecided('; '.join(undecided[:3]))
    return out


def concrete_playback(group, harness_name, repo, scratch):
    """Re-run one failed harness with concrete playback and execute the generated unit test natively against
    the real code.  -> dict(values=[...], reproduced=bool, output=str)"""
    import importlib.util
    spec = importlib.util.spec_from_file_location('plan', os.path.join(VERIF, 'contracts', 'plan.py'))
    plan = importlib.util.module_from_spec(spec)
    spec.loader.exec_module(plan)
    g = plan.KANI_GROUPS[group]
    mods = [(rel, os.path.join(VERIF, hp), mn) for rel, hp, mn in g['mods']]
    ov = os.path.join(scratch, 'ovp_' + group + '_' + harness_name)
    build_overlay(repo, ov, mods, g.get('replace'))
    full = None
    hfile = None
    for rel, hp, mn in mods:
        h, _ = parse_harness_file(hp)
        if harness_name in h:
            base = os.path.dirname(rel)[len('src/'):].replace('/', '::') if os.path.dirname(rel) != 'src' else ''
            full = (base + '::' if base else '') + mn + '::' + harness_name
            hfile = os.path.join(ov, os.path.dirname(rel), mn + '.rs')
    feat = []
    if g.get('features') is not None:
        feat = ['--no-default-features', '--features', ','.join(g['features'])]
    env = dict(os.environ, CARGO_NET_OFFLINE='true', CARGO_TARGET_DIR=os.path.join(ov, 'target'))
    cmd = ['cargo', 'kani', '-Z', 'unstable-options', '-Z', 'concrete-playback', '--concrete-playback=inplace',
           '--harness', full, '--exact', '--harness-timeout', str(g.get('timeout', 600))] + g.get('flags', []) + feat
    p = subprocess.run(cmd, cwd=ov, capture_output=True, text=True, env=env)
    src = open(hfile, encoding='utf-8').read()
    tests = re.findall(r'/// Check for `(\w+)`: "(.*?)"\s*\n\s*#\[test\]\s*fn (kani_concrete_playback_%s_\d+)\(\) \{(.*?)\n\}' % re.escape(harness_name), src, flags=re.S)
    out = dict(values=[], reproduced=False, output='', tests=[])
    if not tests:
        out['output'] = 'no concrete playback test was generated\n' + p.stdout[-1500:]
        shutil.rmtree(ov, ignore_errors=True)
        return out
    p2 = subprocess.run(['cargo', 'kani', 'playback', '-Z', 'concrete-playback'] + feat + ['--', 'kani_concrete_playback_' + harness_name + '_'],
                        cwd=ov, capture_output=True, text=True, env=env)
    txt = p2.stdout + p2.stderr
    failed_tests = set(re.findall(r'^\s+\S*(kani_concrete_playback_\w+)$', txt.split('failures:')[-1], flags=re.M)) if 'failures:' in txt else set()
    for kind, desc, tname, body in tests:
        vals = re.findall(r'^\s*//\s*(.+?)\s*$\n\s*vec!\[([0-9, ]*)\]', body, flags=re.M)
        rec = dict(check_kind=kind, check=desc, test=tname, values=[dict(shown=v, bytes=b) for v, b in vals], native_run='FAILED' if tname in failed_tests else 'passed')
        out['tests'].append(rec)
        if tname in failed_tests and (kind != 'cover' or not out['reproduced']):
            # the generated unit test, run natively on the crate built from /repo, trips the harness's assertion
            out['reproduced'] = True
            out['values'] = rec['values']
    m = re.search(r'panicked at .*', txt)
    out['output'] = (m.group(0) if m else '') + '\n' + '\n'.join(l for l in txt.split('\n') if l.startswith('test ') or l.startswith('test result'))[:1500]
    shutil.rmtree(ov, ignore_errors=True)
    return out
