#!/usr/bin/env python3
"""Development aid: run (a subset of) one Kani group against a tree.

    dev_kani.py <group> [harness regex] [repo] [--tier thorough]
"""
import os
import shutil
import sys
import tempfile
import time

sys.path.insert(0, os.path.dirname(os.path.abspath(__file__)))


def main():
    args = [a for a in sys.argv[1:] if not a.startswith('--')]
    group = args[0]
    if len(args) > 1 and args[1]:
        os.environ['VERIF_KANI_ONLY'] = args[1]
    repo = args[2] if len(args) > 2 else '/repo'
    tier = 'thorough' if '--thorough' in sys.argv else 'quick'
    import kani_unit
    scratch = tempfile.mkdtemp(prefix='devkani.')
    t0 = time.time()
    try:
        try:
            r = kani_unit.run_group(group, repo, scratch, tier, 0)
        except kani_unit.Undecided as e:
            print('UNDECIDED', e)
            return 2
        for o in r['obligations']:
            st = 'UNDECIDED ' + o['undecided'] if o.get('undecided') else ('FAIL' if o['failures'] else 'ok')
            print('%-50s %6.1fs %s %s' % (o['name'], o.get('time_s', 0), st, ('[bounded]' if o.get('bounded') else '')))
            for f in o['failures']:
                print('      ', f['text'][:200])
        for c in r['canary_problems'] + r['undecided']:
            print('PROBLEM', c)
        print('wall %.1fs memo=%s' % (time.time() - t0, r['extraction']['answered_from_memo']))
    finally:
        shutil.rmtree(scratch, ignore_errors=True)


if __name__ == '__main__':
    sys.exit(main())
