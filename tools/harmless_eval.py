#!/usr/bin/env python3
"""False-alarm drill: apply a behaviour-preserving change (patch.diff) to a scratch worktree of /repo and run every Verus unit and
Kani group that reads a changed file.  Any failed obligation - whatever property owns it - is a false alarm; UNDECIDED is acceptable.

    harmless_eval.py <dir with patch.diff> <name> [--no-kani]
Result: JSON line {name, units: {unit: 'ok' | 'undecided: ..' | ['FAIL fn/arm [kind] ..']}}; stored under harmless/<name>/ when --store.
"""
import json
import os
import re
import shutil
import subprocess
import sys
import tempfile

VERIF = os.path.dirname(os.path.dirname(os.path.abspath(__file__)))
sys.path.insert(0, os.path.join(VERIF, 'tools'))
import verus_unit  # noqa: E402

STACK = {'eval_i64': 'i64', 'eval_f64': 'f64', 'eval_number': 'number', 'eval_decimal': 'decimal', 'eval_complex': 'complex'}


def sh(cmd, cwd=None):
    p = subprocess.run(cmd, shell=True, cwd=cwd, capture_output=True, text=True)
    return p.returncode, p.stdout + p.stderr


def units_for(files):
    v, k = set(), set()
    for f in files:
        m = re.match(r'src/(eval_\w+)/(\w+)\.rs', f)
        if m:
            st = STACK[m.group(1)]
            part = m.group(2)
            if part == 'ast':
                v.add(st + '-ast'); v.add(st + '-parser')
                if st in ('i64', 'f64', 'number', 'complex'):
                    k.add(st + '-ast')
                if st in ('i64', 'number'):
                    v.add('i64number-agree')
                if st in ('f64', 'number'):
                    v.add('f64number-agree')
            elif part == 'parser':
                v.add(st + '-parser')
            elif part == 'tokenizer':
                v.add(st + '-tok')
            elif part == 'mod':
                v.add(st + '-glue')
            elif part == 'token':
                v.add(st + '-parser'); v.add(st + '-tok')
            elif part == 'number':
                v |= {'number-ast', 'number-parser', 'number-tok', 'i64number-agree', 'f64number-agree'}
                k |= {'number-ast', 'number-l4'}
        elif f.startswith('src/utils/'):
            for st in STACK.values():
                v.add(st + '-tok'); v.add(st + '-parser')
            k.add('tables')
    return sorted(v), sorted(k)


def main():
    d, name = sys.argv[1], sys.argv[2]
    wt = '/tmp/hv-' + name
    sh('git -C /repo worktree remove --force %s' % wt)
    shutil.rmtree(wt, ignore_errors=True)
    rc, out = sh('git -C /repo worktree add -q --detach %s HEAD' % wt)
    assert rc == 0, out
    res = dict(name=name, units={})
    scratch = tempfile.mkdtemp(prefix='harmless.')
    try:
        rc, out = sh('git apply %s' % os.path.join(d, 'patch.diff'), cwd=wt)
        if rc != 0:
            res['error'] = 'patch does not apply: ' + out[-300:]
            print(json.dumps(res))
            return
        rc, out = sh('git diff --name-only', cwd=wt)
        files = [l for l in out.split('\n') if l.strip()]
        res['files'] = files
        vu, kg = units_for(files)
        import importlib.util
        spec = importlib.util.spec_from_file_location('plan', os.path.join(VERIF, 'contracts', 'plan.py'))
        plan = importlib.util.module_from_spec(spec)
        spec.loader.exec_module(plan)
        for u in vu:
            sp = plan.VERUS_UNITS[u]
            try:
                r = verus_unit.run_unit(sp['unit'], wt, scratch, rlimit=sp.get('rlimit', 30), multiple_errors=sp.get('multiple_errors', 4),
                                        always_split=sp.get('always_split', ()))
                fails = ['FAIL %s/%s [%s] %s' % (f['fn'], f['arm'], f['kind'], f['text'][:120]) for f in r['failures']]
                res['units'][u] = fails or ('undecided: ' + '; '.join(r['undecided'])[:200] if r['undecided'] else 'ok')
            except verus_unit.Undecided as e:
                res['units'][u] = 'undecided: ' + str(e)[:240]
        if '--no-kani' not in sys.argv:
            import kani_unit
            for g in kg:
                try:
                    r = kani_unit.run_group(g, wt, scratch, 'quick', 0)
                    fails = ['FAIL %s %s' % (o['name'], o['failures'][0]['text'][:120]) for o in r['obligations'] if o['failures']]
                    und = [o['name'] for o in r['obligations'] if o.get('undecided')]
                    res['units']['kani:' + g] = fails or ('undecided: ' + ', '.join(und)[:200] if und else 'ok')
                except verus_unit.Undecided as e:
                    res['units']['kani:' + g] = 'undecided: ' + str(e)[:240]
        res['false_alarm'] = any(isinstance(x, list) for x in res['units'].values())
        print(json.dumps(res))
        if '--store' in sys.argv:
            dd = os.path.join(VERIF, 'harmless', name)
            os.makedirs(dd, exist_ok=True)
            shutil.copy(os.path.join(d, 'patch.diff'), os.path.join(dd, 'patch.diff'))
            if os.path.exists(os.path.join(d, 'notes.txt')):
                shutil.copy(os.path.join(d, 'notes.txt'), os.path.join(dd, 'notes.txt'))
            json.dump(res, open(os.path.join(dd, 'result.json'), 'w'), indent=1)
    finally:
        shutil.rmtree(scratch, ignore_errors=True)
        sh('git -C /repo worktree remove --force %s' % wt)
        shutil.rmtree(wt, ignore_errors=True)


if __name__ == '__main__':
    main()
