#!/usr/bin/env python3
"""Writes /verif/MANIFEST.json from contracts/plan.py (one source of truth) and validates it."""
import importlib.util
import json
import os

VERIF = os.path.dirname(os.path.dirname(os.path.abspath(__file__)))
spec = importlib.util.spec_from_file_location('plan', os.path.join(VERIF, 'contracts', 'plan.py'))
plan = importlib.util.module_from_spec(spec)
spec.loader.exec_module(plan)

props = [json.loads(l) for l in open(os.path.join(VERIF, 'properties.jsonl'))]
checks = []
for p in props:
    pid = p['id']
    if pid not in plan.PLAN:
        continue
    e = plan.PLAN[pid]
    engines = []
    if e.get('verus'):
        engines.append('Verus 0.2026.09.13 / z3')
    if e.get('kani') or e.get('kani_thorough'):
        engines.append('Kani 0.68 / CBMC 6.11')
    checks.append(dict(
        property_id=pid,
        quick_cmd='./check %s --tier quick' % pid,
        thorough_cmd='./check %s --tier thorough' % pid,
        evidence_file='/verif/evidence/%s.json' % pid,
        replay_cmd_template='./check %s --replay {path}' % pid,
        engine=' + '.join(engines),
        level_claimed=dict(category=e.get('level', 'proof'), text=plan.LEVEL_TEXT[pid], design_ref=plan.DESIGN_REF.get(pid, 'DESIGN.md section 7')),
        level_note='; '.join(e.get('assumptions', [])) + (' | NOT covered by this check: ' + '; '.join(e['unclaimed']) if e.get('unclaimed') else ''),
        technique=plan.TECHNIQUE.get(pid, 'contract-based deductive verification (Verus contracts on the extracted real code, function by function)'),
    ))
man = dict(
    version=1,
    setup_cmd='python3 tools/setup.py',
    hooks=dict(guard='string_calculator_verif', enable='none needed: no cfg-guarded hook exists in /repo; checks read /repo\'s working tree (extraction / overlay copy)',
               baseline_off_cmd='cd /repo && cargo test --workspace --no-fail-fast --offline', source_commits=[], add_only=True),
    engines=[dict(name='verus', path='/opt/veriftools/verus', serves_properties=[c['property_id'] for c in checks if 'Verus' in c['engine']],
                  kind_free_text='deductive verifier; single-file mode on text extracted mechanically from /repo on every run'),
             dict(name='kani', path='cargo kani', serves_properties=[c['property_id'] for c in checks if 'Kani' in c['engine']],
                  kind_free_text='loop-free full-domain harnesses on an overlay copy of the unmodified crate (complete proofs); bounded stand-ins labelled')],
    checks=checks,
    notes='See DESIGN.md. Every check exits 2 (UNDECIDED, never a VIOLATION) on tool limits, lost anchors or framework errors.',
    not_applicable=[dict(property_id=k, reason=v) for k, v in plan.NOT_APPLICABLE.items() if k not in plan.PLAN],
)
json.dump(man, open(os.path.join(VERIF, 'MANIFEST.json'), 'w'), indent=1)
try:
    import jsonschema
    jsonschema.validate(man, json.load(open('/root/.vp/MANIFEST.schema.json')))
    print('MANIFEST.json valid:', len(checks), 'checks,', len(man['not_applicable']), 'not applicable')
except ImportError:
    print('jsonschema not available; MANIFEST.json written without validation')
