#!/usr/bin/env python3
"""Development aid: run one Verus unit against a tree and print what the driver would see.

    dev_unit.py <unit> [repo] [--keep]
"""
import os
import shutil
import sys
import tempfile
import time

sys.path.insert(0, os.path.dirname(os.path.abspath(__file__)))
import verus_unit  # noqa: E402


def main():
    args = [a for a in sys.argv[1:] if not a.startswith('--')]
    unit = args[0]
    repo = args[1] if len(args) > 1 else '/repo'
    feats = None
    tag = None
    if '@' in unit:
        unit, tag = unit.split('@')
        if tag == 'noi64':
            feats = ['eval_decimal', 'eval_f64', 'eval_complex', 'eval_number']
    scratch = tempfile.mkdtemp(prefix='devunit.')
    t0 = time.time()
    try:
        try:
            r = verus_unit.run_unit(unit, repo, scratch, features=feats, tag=tag,
                                    multiple_errors=40 if unit == 'decimal-ast' else 4,
                                    always_split=['eval'] if unit == 'number-ast' else ())
        except verus_unit.Undecided as e:
            print('UNDECIDED', e)
            return 2
        print('unit %s: verified=%s errors=%s split_runs=%s queries=%s memo=%s wall=%.1fs smt=%.1fs' % (
            r['unit'], r['verus_verified'], r['verus_errors'], r['split_runs'], r['queries'], r['cache_hits'], time.time() - t0, r['smt_total_s']))
        for f in r['failures']:
            print('FAIL %s/%s [%s] line %s: %s\n     clause: %s' % (f['fn'], f['arm'], f['kind'], f['line'], f['text'][:160], f.get('clause', '')[:200]))
            if '--rendered' in sys.argv:
                print(f['rendered'])
        for u in r['undecided']:
            print('UNDECIDED', u)
        for c in r['canary_problems_pre']:
            print('CANARY', c)
        slow = sorted(r['fn_times'].items(), key=lambda kv: -kv[1])[:5]
        print('slowest:', ', '.join('%s %.1fs' % kv for kv in slow))
        return 1 if r['failures'] else 0
    finally:
        if '--keep' in sys.argv:
            print('scratch:', scratch)
        else:
            shutil.rmtree(scratch, ignore_errors=True)


if __name__ == '__main__':
    sys.exit(main())
