#!/usr/bin/env python3
"""contracts/obligation_floor.json from the evidence of a reviewed run on the pinned tree: the number of owned obligations per property and tier
(vacuity guard of the driver: a later run that generates fewer has silently lost contracts, arms or harnesses)."""
import glob
import json
import os

VERIF = os.path.dirname(os.path.dirname(os.path.abspath(__file__)))
p = os.path.join(VERIF, 'contracts', 'obligation_floor.json')
floor = json.load(open(p)) if os.path.exists(p) else {}
for f in sorted(glob.glob(os.path.join(VERIF, 'evidence', 'C*.json'))):
    ev = json.load(open(f))
    floor.setdefault(ev['property_id'], {})[ev.get('tier', 'quick')] = ev['coverage']['obligations']
json.dump(floor, open(p, 'w'), indent=1)
print({k: v for k, v in floor.items()})
