#!/usr/bin/env python3
"""contracts/fn_inventory.json: the functions each unit reads from the pinned tree (/repo HEAD).  A function that is NOT in the inventory
and has no contract is a helper introduced by a later change: an obligation that fails in code calling it is undecided, not violated
(the caller knows nothing about an uncontracted callee)."""
import json
import os
import subprocess
import sys
import tempfile

VERIF = os.path.dirname(os.path.dirname(os.path.abspath(__file__)))
sys.path.insert(0, os.path.join(VERIF, 'tools'))
import extract  # noqa: E402
import rsrc  # noqa: E402

UNITS = [s + '-' + p for s in ('i64', 'f64', 'number', 'decimal', 'complex') for p in ('ast', 'parser', 'tok', 'glue')]


def main():
    tmp = tempfile.mkdtemp(prefix='inv.')
    subprocess.check_call('git -C /repo archive HEAD | tar -x -C %s' % tmp, shell=True)
    inv = {}
    for u in UNITS:
        ud = extract.unit_def(u)
        names = set()
        for rel, items in ud['files']:
            s = rsrc.cut_tests(open(os.path.join(tmp, rel), encoding='utf-8').read())
            if items is not None:
                s = extract.take_items(s, items)
            names |= set(rsrc.fn_names(s))
        inv[u] = sorted(names)
    json.dump(dict(repo_commit=subprocess.check_output('git -C /repo rev-parse --short HEAD', shell=True, text=True).strip(), units=inv),
              open(os.path.join(VERIF, 'contracts', 'fn_inventory.json'), 'w'), indent=1)
    subprocess.call(['rm', '-rf', tmp])
    print({u: len(v) for u, v in inv.items()})


if __name__ == '__main__':
    main()
