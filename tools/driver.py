"""Driver behind ./check: plan -> run units -> classify -> evidence / VIOLATION / KNOWN-FINDING."""
import argparse
import concurrent.futures as cf
import hashlib
import importlib.util
import json
import os
import re
import shutil
import signal
import sys
import tempfile
import time

HERE = os.path.dirname(os.path.abspath(__file__))
VERIF = os.path.dirname(HERE)
sys.path.insert(0, HERE)
import verus_unit  # noqa: E402
from verus_unit import Undecided  # noqa: E402

REPO = os.environ.get('VERIF_REPO', '/repo')


def load_py(path, name):
    spec = importlib.util.spec_from_file_location(name, path)
    mod = importlib.util.module_from_spec(spec)
    spec.loader.exec_module(mod)
    return mod


ownership = load_py(os.path.join(VERIF, 'contracts', 'ownership.py'), 'ownership')
plan = load_py(os.path.join(VERIF, 'contracts', 'plan.py'), 'plan')


class Scratch:
    def __init__(self):
        self.dir = tempfile.mkdtemp(prefix='scverif.%d.' % os.getpid(), dir=os.environ.get('TMPDIR', '/tmp'))
        for sig in (signal.SIGTERM, signal.SIGINT, signal.SIGHUP):
            signal.signal(sig, self._sig)

    def _sig(self, signum, frame):
        self.cleanup()
        sys.exit(2)

    def cleanup(self):
        shutil.rmtree(self.dir, ignore_errors=True)


def known_findings():
    p = os.path.join(VERIF, 'known_findings.json')
    if not os.path.exists(p):
        return dict(findings=[], fixed=[])
    return json.load(open(p))


def write_json(path, obj):
    os.makedirs(os.path.dirname(path), exist_ok=True)
    tmp = path + '.tmp'
    with open(tmp, 'w') as f:
        json.dump(obj, f, indent=1, sort_keys=False)
    os.replace(tmp, path)


def main(argv):
    ap = argparse.ArgumentParser()
    ap.add_argument('pid')
    ap.add_argument('--tier', default=os.environ.get('VERIF_TIER', 'quick'), choices=['quick', 'thorough'])
    ap.add_argument('--replay')
    ap.add_argument('--keep', action='store_true', help='keep the scratch directory (debugging)')
    args = ap.parse_args(argv)
    pid = args.pid
    seed = int(os.environ.get('VERIF_SEED', '0') or 0)
    if args.replay:
        import replay
        return replay.replay_file(args.replay, REPO)
    if pid not in plan.PLAN:
        print('property %s is not claimed (see MANIFEST.json not_applicable)' % pid)
        return 2
    t0 = time.time()
    scratch = Scratch()
    try:
        return run(pid, args.tier, seed, scratch, t0)
    finally:
        if not args.keep:
            scratch.cleanup()
        else:
            print('scratch kept at', scratch.dir)


def run(pid, tier, seed, scratch, t0):
    p = plan.PLAN[pid]
    evidence_path = os.path.join(VERIF, 'evidence', pid + '.json')
    if os.path.realpath(REPO) != '/repo':
        # development runs against a scratch copy never touch the evidence of /repo
        evidence_path = os.path.join(VERIF, 'build', 'evidence-scratch', pid + '.json')
    results = []
    undecided = []
    jobs = []
    with cf.ThreadPoolExecutor(max_workers=plan.PARALLEL_UNITS) as ex:
        for u in plan.verus_units(pid, tier):
            jobs.append(('verus', u, ex.submit(run_verus, u, scratch)))
        for k in plan.kani_groups(pid, tier):
            import kani_unit
            jobs.append(('kani', k, ex.submit(kani_unit.run_group, k, REPO, scratch.dir, tier, seed)))
        if p.get('tables_agree'):
            jobs.append(('tables', 'tables-agree', ex.submit(run_tables_agree)))
        if p.get('features_sweep'):
            import features_unit
            subsets = features_unit.all_subsets() if tier == 'thorough' else plan.C17_QUICK_SUBSETS
            jobs.append(('frame', 'cfg-frame', ex.submit(run_cfg_frame)))
            for sub in subsets:
                tag = features_unit.tag_of(sub)
                jobs.append(('build', tag, ex.submit(run_exports_unit, sub, scratch)))
                import kani_unit
                jobs.append(('kani', 'tables@' + tag, ex.submit(kani_unit.run_group, 'tables', REPO, scratch.dir, tier, seed, sub)))
            # the parsers with the cfg-dependent category enum resolved for "eval_i64 off" (the only cfg that changes the text)
            for st in ('f64', 'number', 'decimal', 'complex'):
                feats = [f for f in features_unit.ALL if f != 'eval_i64']
                jobs.append(('verus', st + '-parser@noi64', ex.submit(run_verus_variant, st + '-parser', feats, 'noi64', scratch)))
        for engine, u, fut in jobs:
            try:
                results.append(fut.result())
            except Undecided as e:
                undecided.append(str(e))
            except Exception as e:  # framework error: undecided, never a violation
                undecided.append('framework error in %s unit %s: %r' % (engine, u, e))

    # ---- classify
    owned = []          # obligations owned by pid
    failed = []         # (obligation, failure) owned by pid
    bounded = []
    assumptions = set()
    fn_contract = set()
    backends = set()
    solver_time = 0.0
    extraction = []
    for r in results:
        backends.add(r.get('backend', 'verus/z3'))
        solver_time += r.get('smt_total_s', 0.0)
        for a in r.get('assumptions', []):
            assumptions.add(a)
        if r.get('extraction'):
            extraction.append(r['extraction'])
        for o in r['obligations']:
            own = o.get('owners') if 'owners' in o else ownership.owners(r['base_unit'], o['fn'], o['arm'])
            if pid not in own:
                continue
            if o.get('undecided'):
                undecided.append(o['undecided'])
            if o.get('bounded'):
                bounded.append(dict(name=o['name'], bound=o['bounded'], result='undecided' if o.get('undecided') else ('failed' if o['failures'] else 'passed')))
            else:
                owned.append(o)
            fn_contract.add(o.get('function_label') or ('%s::%s' % (r['base_unit'], o['fn'])))
            for f in o['failures']:
                fown = f.get('owners') if 'owners' in f else ownership.owners(r['base_unit'], o['fn'], o['arm'], f['kind'])
                if pid in fown:
                    failed.append((o, f, r))
        for c in r.get('canary_problems', []):
            undecided.append(c)
        for c in r.get('undecided', []):
            undecided.append('[%s] %s' % (r['unit'], c))

    # A Verus value clause fails when an arm computes its value by other means than the primitive the specification names (the IEEE
    # primitives are uninterpreted there).  If, in the same run, a *complete* Kani harness (full operand domain, not bounded) of that
    # very arm passes - bit-exact against the IEEE operation - the arm is right and the Verus failure is a limit of the vocabulary:
    # undecided, not a violation.  (The harness proves the arm for leaf children; the arm uses its children only through eval.)
    STACK_OF = {'f64-ast': 'eval_f64', 'number-ast': 'eval_number', 'i64-ast': 'eval_i64', 'complex-ast': 'eval_complex'}
    kani_ok = {}
    for r in results:
        if not r['unit'].startswith('kani:'):
            continue
        for o in r['obligations']:
            lab = o.get('function_label') or ''
            if '::ast::eval/' in lab and not o.get('bounded') and o.get('exact'):      # `exact=1`: the harness pins the value of the arm for all operands
                key = lab.split('(')[0]
                good = not o['failures'] and not o.get('undecided')
                kani_ok[key] = kani_ok.get(key, True) and good
    kept = []
    for o, f, r in failed:
        st = STACK_OF.get(r.get('base_unit'))
        if st and o['fn'] == 'eval' and o['arm'] and f['kind'] == 'post' and kani_ok.get('%s::ast::eval/%s' % (st, o['arm'].split('/')[0])) \
                and arm_frame_ok(r, o['arm'].split('/')[0]):
            undecided.append('obligation %s: Verus cannot prove the arm equal to the primitive the specification names, while the complete Kani harness of the same arm '
                             'proves it bit-exact over all operands: a reformulation the specification vocabulary cannot follow (not a violation)' % o['name'])
            continue
        kept.append((o, f, r))
    failed = kept

    kf = known_findings()
    violations = []
    known_hits = []
    for o, f, r in failed:
        hit = None
        for k in kf.get('findings', []):
            if k['property'] == pid and k['obligation'] == o['name'] and k.get('kind', f['kind']) == f['kind'] \
                    and (not k.get('text_contains') or k['text_contains'] in f.get('text', '')):
                hit = k
        if hit:
            known_hits.append((o, f, hit))
        else:
            violations.append((o, f, r))

    wall = time.time() - t0
    # an obligation counts against this property only through failures this property owns; obligations whose only owned
    # failures are listed known findings are reported separately and are not part of the proof claim
    failed_names = set(o['name'] for o, f, r in violations)
    known_names = set(o['name'] for o, f, k in known_hits) - failed_names
    known_obligations = [o for o in owned if o['name'] in known_names]
    owned = [o for o in owned if o['name'] not in known_names]
    discharged = len([o for o in owned if o['name'] not in failed_names and not o.get('undecided')])
    level = plan.PLAN[pid].get('level', 'proof')
    samples = [dict(obligation=o['name'], contract=o.get('contract', ''), status='failed' if o['name'] in failed_names else 'discharged')
               for o in owned[:6]]
    ev = dict(
        property_id=pid, tier=tier, seed=seed, level=level,
        coverage=dict(
            obligations=len(owned), discharged=discharged,
            checker_cmd='; '.join(sorted(set(r['cmd'] for r in results))),
            trusted_base=sorted(assumptions),
            samples=samples,
            functions_under_contract=sorted(fn_contract),
            backends=sorted(backends),
            solver_time_s=round(solver_time, 3),
            obligation_names=[o['name'] for o in owned],
            bounded_checks=bounded,
            unclaimed_parts=plan.PLAN[pid].get('unclaimed', []),
            extraction=extraction,
            known_findings=[k['what'] for _, _, k in known_hits],
            known_finding_obligations=[o['name'] for o in known_obligations],
            undecided=undecided,
            open_obligations=sorted(set(x for r in results for x in r.get('open_obligations', []))),
            explanation=plan.PLAN[pid].get('explanation', ''),
        ),
        assumptions=sorted(set(plan.PLAN[pid].get('assumptions', []))),
        wall_s=round(wall, 2), violations=len(violations),
    )
    write_json(evidence_path, ev)

    for o, f, k in known_hits:
        print('KNOWN-FINDING: property=%s %s' % (pid, k['what']))
    if violations:
        import replay
        real = 0
        for o, f, r in violations:
            path, found, spurious = replay.make_replay(pid, o, f, r, REPO, scratch.dir)
            if spurious:
                # the model checker's counterexample does not replay on the real code: tool imprecision, not a violation
                undecided.append('obligation %s: the counterexample of the model checker passes when run natively (see %s)' % (o['name'], path))
                continue
            real += 1
            tail = '' if found else ' no-failing-input-found'
            print('obligation %s failed: %s [%s] %s' % (o['name'], f.get('message', ''), f['kind'], f.get('text', '')))
            print('VIOLATION property=%s replay=%s%s' % (pid, path, tail))
        if real:
            return 1
    if undecided:
        for u in undecided:
            print('UNDECIDED property=%s reason=%s' % (pid, u))
        return 2
    if len(owned) == 0:
        print('UNDECIDED property=%s reason=no obligations generated (vacuity guard)' % pid)
        return 2
    # vacuity guard: a run that generates fewer owned obligations than the committed floor (the count of the last
    # reviewed run on the pinned tree) has silently lost contracts, arms or harnesses
    try:
        floor = json.load(open(os.path.join(VERIF, 'contracts', 'obligation_floor.json'))).get(pid, {}).get(tier, 0)
    except Exception:
        floor = 0
    if len(owned) < floor:
        print('UNDECIDED property=%s reason=only %d owned obligations were generated, the committed floor is %d (vacuity guard)' % (pid, len(owned), floor))
        return 2
    print('OK property=%s tier=%s obligations=%d discharged=%d bounded=%d wall=%.1fs'
          % (pid, tier, len(owned), discharged, len(bounded), wall))
    return 0


def arm_frame_ok(r, arm):
    """The induction frame the per-constructor Kani harnesses rest on, checked on the text of the arm: every child bound by the arm's
    pattern is used exactly once, as the argument of `eval(..)?`, and all these calls come before the first branching construct of the
    arm - so each child is evaluated exactly once, unconditionally, and its error is propagated.  (A harness with leaf children cannot see
    an arm that skips a child or swallows its error.)"""
    try:
        import verus_unit as vu
        src = open(r['file'], encoding='utf-8').read().split('\n')
        e = r['meta']['functions']['eval']
        for a in e['arms']:
            if vu.arm_label(a['pat']) != arm:
                continue
            region = '\n'.join(src[a['line_start'] - 1:a['line_end']])
            head, _, body = region.partition('=>')
            body = re.sub(r'^\s*return\b', '', body, count=1)          # the `return` rewrite T5 puts in front of every arm
            binders = re.findall(r'[A-Za-z_][A-Za-z0-9_]*', head.split('(', 1)[1]) if '(' in head else []
            if not binders:
                return False
            ctrl = re.search(r'\b(if|match|return|while|for|loop)\b', body)
            first_ctrl = ctrl.start() if ctrl else len(body)
            for b in binders:
                occ = [m.start() for m in re.finditer(r'\b%s\b' % re.escape(b), body)]
                if len(occ) != 1:
                    return False
                m = re.search(r'eval\(\s*\*?\s*%s\s*(,\s*steps\s*)?\)\s*\?' % re.escape(b), body)
                if not m or m.start() > occ[0] or occ[0] > m.end() or m.start() > first_ctrl:
                    return False
            return True
    except Exception:
        return False
    return False


def run_tables_agree():
    """C15, parser side: the five grammar tables agree wherever two evaluators share a token / function."""
    T = json.load(open(os.path.join(VERIF, 'spec', 'tables.json')))['stacks']
    bad = []
    n = 0
    names = sorted(T)
    for i, a in enumerate(names):
        for b in names[i + 1:]:
            for key in ('prec', 'binary', 'unit_postfix', 'groups'):
                for tok in set(T[a][key]) & set(T[b][key]):
                    n += 1
                    if T[a][key][tok] != T[b][key][tok]:
                        bad.append('%s/%s: %s[%s] %r != %r' % (a, b, key, tok, T[a][key][tok], T[b][key][tok]))
            for f in set(T[a]['functions']) & set(T[b]['functions']):
                n += 1
                if T[a]['functions'][f] != T[b]['functions'][f]:
                    bad.append('%s/%s: function %s %r != %r' % (a, b, f, T[a]['functions'][f], T[b]['functions'][f]))
    fails = [dict(fn='tables-agree', arm=None, kind='tables', text=x, message='grammar tables disagree', rendered='', owners=['C15']) for x in bad]
    return dict(unit='tables:agree', base_unit='tables:agree', backend='table comparison', cmd='compare spec/tables.json entries pairwise',
                obligations=[dict(name='S:c15/tables-agree', fn='tables-agree', arm=None, owners=['C15'], failures=fails,
                                  function_label='spec/tables.json (the tables the five parser proofs refine)',
                                  contract='%d shared table entries are identical between every pair of evaluators' % n)],
                assumptions=[], smt_total_s=0.0)


def run_cfg_frame():
    import features_unit
    hits, bad = features_unit.cfg_frame(REPO)
    fails = [dict(fn='cfg-frame', arm=None, kind='frame', text='%s:%d %s' % b, message='cfg outside lib.rs / operator_category.rs', rendered='', owners=['C17']) for b in bad]
    return dict(unit='frame:cfg', base_unit='frame:cfg', backend='syntactic scan', cmd='grep cfg( over /repo/src',
                obligations=[dict(name='S:c17/cfg-frame', fn='cfg-frame', arm=None, owners=['C17'], failures=fails,
                                  function_label='src/lib.rs + src/utils/operator_category.rs (the only cfg-dependent items)',
                                  contract='`cfg(` occurs only in src/lib.rs and src/utils/operator_category.rs: %d occurrences' % len(hits))],
                assumptions=[], smt_total_s=0.0)


def run_exports_unit(subset, scratch):
    import features_unit
    r = features_unit.run_exports(subset, REPO, scratch.dir)
    fails = [] if r['ok'] else [dict(fn='exports', arm=None, kind='build', text='cargo build failed for features ' + r['tag'],
                                     message='the crate does not build with, or does not export exactly, the selected items', rendered=r['output'], owners=['C17'])]
    return dict(unit='build:' + r['tag'], base_unit='build:c17', backend='rustc (cargo build --offline)', cmd='cargo build --offline -q (generated probe crate, --no-default-features --features <subset>)',
                obligations=[dict(name='B:c17/%s/exports' % r['tag'], fn='exports', arm=None, owners=['C17'], failures=fails,
                                  function_label='src/lib.rs (cfg-gated modules and re-exports)',
                                  contract='builds with exactly {%s}; exports exactly the selected eval_* (+ Number with eval_number, ParseError)' % r['tag'])],
                assumptions=['cargo feature resolution'], smt_total_s=0.0,
                extraction=dict(unit='build:' + r['tag'], answered_from_memo=r.get('from_cache'), wall_s=r.get('wall_s')))


def run_verus_variant(unit, features, tag, scratch):
    r = verus_unit.run_unit(unit, REPO, scratch.dir, features=features, rlimit=30, tag=tag)
    return finish_verus(r)


def run_verus(unit, scratch):
    spec = plan.VERUS_UNITS[unit]
    r = verus_unit.run_unit(spec['unit'], REPO, scratch.dir, features=spec.get('features'),
                            rlimit=spec.get('rlimit', 30), tag=spec.get('tag'), multiple_errors=spec.get('multiple_errors', 4),
                            always_split=spec.get('always_split', ()))
    return finish_verus(r)


def finish_verus(r):
    r['backend'] = 'verus %s / z3' % (r.get('verus_version') or '')
    r['assumptions'] = ['[%s] %s' % (r['unit'], a) for a in verus_unit.scan_assumptions(r['file'])]
    m = r['meta']
    r['extraction'] = dict(unit=r['unit'], sha256=m['sha256'], rewrites=m['rewrites'], contracts_sha256=m['contracts_sha256'],
                           verus_verified=r['verus_verified'], verus_errors=r['verus_errors'], wall_s=round(r['wall_s'], 2),
                           verifier_queries=r.get('queries'), answered_from_memo=r.get('cache_hits'))
    # contract text of each contracted function, for the evidence samples
    contracts = verus_unit_contract_texts(r['file'], m)
    for o in r['obligations']:
        o['contract'] = contracts.get(o['fn'], '')
    r['canary_problems'] = check_canaries(r)
    return r


def verus_unit_contract_texts(path, meta):
    src = open(path, encoding='utf-8').read().split('\n')
    out = {}
    for fname, e in meta['functions'].items():
        ls = e['line_start'] - 1
        txt = []
        for ln in src[ls:ls + 12]:
            if ln.strip() == '{':
                break
            txt.append(ln.strip())
        out[fname] = ' '.join(txt)[:400]
    return out


def check_canaries(r):
    """Every `proof fn canary_*` of the unit must FAIL; the run reports them in r['canaries']."""
    return r.get('canary_problems_pre', [])
