#!/usr/bin/env python3
"""Re-run the checks against stored seeded changes (seeded/<id>/patch.diff) and refresh the `checks` entry of meta.json.

    seed_recheck.py [-j N] [--props] [<id> ...]      default: every stored seed, its own property only

The change was confirmed when it was stored (suite passes, demonstration fails with / passes without); this tool only
repeats the last step: apply the patch to a scratch worktree of /repo, run `./check <property>` on it (VERIF_REPO), record
exit code and the VIOLATION / UNDECIDED lines, remove the worktree.
"""
import concurrent.futures as cf
import glob
import json
import os
import shutil
import subprocess
import sys
import time

VERIF = os.path.dirname(os.path.dirname(os.path.abspath(__file__)))


def sh(cmd, cwd=None, env=None, timeout=7200):
    p = subprocess.run(cmd, shell=True, cwd=cwd, capture_output=True, text=True, env=env, timeout=timeout)
    return p.returncode, p.stdout + p.stderr


def one(name):
    d = os.path.join(VERIF, 'seeded', name)
    meta = json.load(open(os.path.join(d, 'meta.json')))
    pid = meta['property']
    wt = '/tmp/svr-' + name
    sh('git -C /repo worktree remove --force %s' % wt)
    shutil.rmtree(wt, ignore_errors=True)
    rc, out = sh('git -C /repo worktree add -q --detach %s HEAD' % wt)
    if rc != 0:
        return name, None, 'worktree: ' + out[-200:]
    try:
        rc, out = sh('git apply %s' % os.path.join(d, 'patch.diff'), cwd=wt)
        if rc != 0:
            rc, out = sh('git apply --3way %s' % os.path.join(d, 'patch.diff'), cwd=wt)
        if rc != 0:
            return name, None, 'patch does not apply: ' + out[-200:]
        env = dict(os.environ, VERIF_REPO=wt)
        t = time.time()
        rc, out = sh('./check %s' % pid, cwd=VERIF, env=env)
        lines = [l for l in out.split('\n') if l.startswith(('VIOLATION', 'UNDECIDED', 'OK ', 'KNOWN', 'obligation'))]
        lines.sort(key=lambda l: 0 if l.startswith(('obligation', 'VIOLATION', 'UNDECIDED')) else 1)
        meta.setdefault('checks', {})[pid] = dict(exit=rc, lines=[l[:300] for l in lines][:16], wall_s=round(time.time() - t, 1))
        meta['detected'] = rc == 1
        meta['rechecked_at_verif_commit'] = sh('git -C %s rev-parse --short HEAD' % VERIF)[1].strip()
        json.dump(meta, open(os.path.join(d, 'meta.json'), 'w'), indent=1)
        return name, rc, (lines[0][:200] if lines else out[-200:])
    finally:
        sh('git -C /repo worktree remove --force %s' % wt)
        shutil.rmtree(wt, ignore_errors=True)


def main():
    args = sys.argv[1:]
    jobs = 2
    if args and args[0] == '-j':
        jobs = int(args[1])
        args = args[2:]
    names = args or sorted(os.path.basename(os.path.dirname(p)) for p in glob.glob(os.path.join(VERIF, 'seeded', '*', 'meta.json')))
    with cf.ThreadPoolExecutor(max_workers=jobs) as ex:
        for name, rc, info in ex.map(one, names):
            print('%-8s exit=%s  %s' % (name, rc, info), flush=True)


if __name__ == '__main__':
    main()
