"""Run one Verus unit: extract from /repo's working tree, verify, turn diagnostics into named obligations."""
import json
import os
import re
import subprocess
import sys
import time

sys.path.insert(0, os.path.dirname(os.path.abspath(__file__)))
import extract  # noqa: E402
from rsrc import LostAnchor  # noqa: E402

VERIF = os.path.dirname(os.path.dirname(os.path.abspath(__file__)))

KINDS = [
    (r'postcondition not satisfied', 'post'),
    (r'precondition not satisfied', 'precond'),
    (r'possible arithmetic underflow/overflow', 'overflow'),
    (r'possible division by zero', 'divzero'),
    (r'possible bit shift underflow/overflow', 'shift'),
    (r'could not prove termination', 'decreases'),
    (r'decreases not satisfied', 'decreases'),
    (r'invariant not satisfied', 'invariant'),
    (r'assertion failed', 'assert'),
    (r'loop must have a decreases', 'decreases'),
    (r'index out of bounds', 'index'),
]


# --verify-function needs a unique substring
VERIFY_FN_ALIAS = {'next': 'Tokenizer::next'}


class Undecided(Exception):
    pass


import threading  # noqa: E402
VERUS_SLOTS = threading.BoundedSemaphore(int(os.environ.get('VERIF_JOBS', '16')))


def arm_label(pat):
    """`Add(expr1, expr2)` -> Add ; `Token::Num(i)` -> Num ; `_` -> default ; `Some('0'..='9')` -> as is"""
    m = re.match(r'^(?:\w+::)*(\w+)\s*(?:\(|\{|$)', pat)
    if m and m.group(1) not in ('Some', 'None'):
        return m.group(1)
    if pat.strip() == '_':
        return 'default'
    return re.sub(r'\s+', '', pat)


def _verus_once(unit, repo, out_rs, scratch, features, rlimit, multiple_errors, focus=None, extra=()):
    """one extraction + one verus run -> dict(meta, res, verif=[(kind, diag)], undecided=[...], compile_errors=[...], cmd, wall)"""
    meta = extract.extract(unit, repo, out_rs, features, focus)
    t0 = time.time()
    cmd = ['verus', out_rs, '--output-json', '--time-expanded', '--error-format=json',
           '--rlimit', str(rlimit), '--multiple-errors', str(multiple_errors)] + list(extra)
    # memoisation: the generated file (source text + contracts) and the options determine the verifier's
    # answer; an identical query is not sent to the solver twice (several properties share a unit)
    import hashlib
    key = hashlib.sha256((open(out_rs, encoding='utf-8').read() + '\0' + ' '.join(cmd[2:]) + '\0' + verus_version()).encode()).hexdigest()
    cdir = os.path.join(VERIF, 'build', 'cache')
    cfile = os.path.join(cdir, key + '.json')
    cached = None
    if os.environ.get('VERIF_NO_CACHE') != '1' and os.path.exists(cfile):
        try:
            cached = json.load(open(cfile))
        except Exception:
            cached = None
    if cached is None:
        with VERUS_SLOTS:
            p = subprocess.run(cmd, capture_output=True, text=True, cwd=scratch)
        out_text, err_text = p.stdout, p.stderr
        wall = time.time() - t0
        if p.returncode in (0, 1) and out_text.strip().startswith('{'):
            try:
                os.makedirs(cdir, exist_ok=True)
                tmp = cfile + '.tmp%d.%d' % (os.getpid(), threading.get_ident())
                with open(tmp, 'w') as fh:
                    json.dump(dict(stdout=out_text, stderr=err_text, wall=wall), fh)
                os.replace(tmp, cfile)
            except Exception:
                pass
        from_cache = False
    else:
        out_text, err_text, wall = cached['stdout'], cached['stderr'], cached['wall']
        from_cache = True

    class _P:
        stdout = out_text
        stderr = err_text
    p = _P()
    try:
        res = json.loads(p.stdout)
    except Exception:
        res = None
    diags = []
    for ln in p.stderr.split('\n'):
        if ln.startswith('{') and '"$message_type"' in ln:
            try:
                diags.append(json.loads(ln))
            except Exception:
                pass
    compile_errors, verif, undecided = [], [], []
    for d in diags:
        if d.get('level') != 'error':
            continue
        msg = d.get('message', '')
        if msg.startswith('aborting due to'):
            continue
        if 'Resource limit (rlimit) exceeded' in msg:
            undecided.append((msg, d))
            continue
        kind = None
        for pat, k in KINDS:
            if re.search(pat, msg):
                kind = k
                break
        if kind is None:
            compile_errors.append(msg + ' @ ' + _loc_text(d))
            continue
        verif.append((kind, d))
    if res is None and not compile_errors:
        compile_errors.append('verus produced no result: ' + p.stderr[-400:])
    return dict(meta=meta, res=res, verif=verif, undecided=undecided, compile_errors=compile_errors,
                cmd=' '.join(cmd).replace(scratch, '<scratch>'), wall=wall, from_cache=from_cache)


_VV = []


def verus_version():
    if not _VV:
        try:
            _VV.append(subprocess.run(['verus', '--version'], capture_output=True, text=True).stdout.strip())
        except Exception:
            _VV.append('?')
    return _VV[0]


def _diag_line(d):
    spans = d.get('spans', [])
    loc = None
    for sp in spans:
        lab = sp.get('label') or ''
        if 'at this exit' in lab or 'at the end of the function body' in lab:
            loc = sp
    if loc is None:
        prim = [sp for sp in spans if sp.get('is_primary')]
        loc = prim[0] if prim else (spans[0] if spans else None)
    line = loc['line_start'] if loc else 0
    text = (loc['text'][0]['text'].strip() if loc and loc.get('text') else '')
    return line, text


def _locate(fns, line):
    for fname, e in fns.items():
        if e['line_start'] <= line <= e['line_end']:
            arm = None
            for a in e['arms']:
                if a['line_start'] <= line <= a['line_end']:
                    arm = arm_label(a['pat'])
                    for sa in a.get('sub', []):
                        if sa['line_start'] <= line <= sa['line_end']:
                            arm = arm + '/' + arm_label(sa['pat'])
            return fname, arm
    return None, None


def run_unit(unit, repo, scratch, features=None, rlimit=30, multiple_errors=4, tag=None, verus_args=(), split_workers=16, always_split=()):
    """-> dict(unit, obligations=[...], failures=[...], meta, times)"""
    name = unit if not tag else unit + '@' + tag
    base = os.path.join(scratch, name.replace('@', '_').replace(',', '_'))
    out_rs = base + '.rs'
    try:
        # pre-pass (no verification) to learn which arms carry an inner match: those are always verified
        # one inner arm at a time (their joint query exceeds the resource limit even on the unchanged tree)
        meta0 = extract.extract(unit, repo, out_rs, features)
        presplit = {}
        for fname, e in meta0['functions'].items():
            for k, a in enumerate(e['arms']):
                if a.get('sub'):
                    presplit[(fname, k)] = len(a['sub'])
        focus0 = dict(inner={key: set() for key in presplit}) if presplit else None
        # functions whose joint query is known to exceed the resource limit on the unchanged tree (plan: always_split) are not
        # tried as a whole: the first run keeps the function with every arm pruned, the arms follow one by one
        for fname in always_split:
            if fname in meta0['functions'] and meta0['functions'][fname]['arms']:
                focus0 = focus0 or {}
                focus0[fname] = set()
        w = _verus_once(unit, repo, out_rs, scratch, features, rlimit, multiple_errors, focus=focus0, extra=verus_args)
    except LostAnchor as e:
        raise Undecided('lost-anchor in unit %s: %s' % (name, e))
    except FileNotFoundError as e:
        raise Undecided('source file missing for unit %s: %s' % (name, e))
    if w['compile_errors']:
        raise Undecided('verus front end rejected unit %s (unsupported construct or contract/text mismatch): %s'
                        % (name, '; '.join(w['compile_errors'][:3])))
    meta, res = w['meta'], w['res']
    fns = meta['functions']
    total_wall = w['wall']
    cmds = [w['cmd']]
    cache_hits = 1 if w.get('from_cache') else 0
    queries = 1

    # canaries: proof fns named canary_* in the postlude must FAIL (anti-vacuity, DESIGN section 9)
    gen = open(out_rs, encoding='utf-8').read()
    canaries = {}
    import rsrc
    for mm in re.finditer(r'proof fn (canary_\w+)', gen):
        a, bo, bc = rsrc.find_fn(gen, mm.group(1))
        canaries[mm.group(1)] = [gen.count('\n', 0, a) + 1, gen.count('\n', 0, bc) + 1, 0]

    failures = []
    undecided = []
    split_fns = set()

    def absorb(kind, d, fns_, restrict_fn=None):
        line, text = _diag_line(d)
        for cn, c in canaries.items():
            if restrict_fn is None and c[0] <= line <= c[1]:
                c[2] += 1
                return
        fname, arm = _locate(fns_, line)
        if restrict_fn is not None and fname != restrict_fn:
            return
        if fname is None:
            raise Undecided('spec-side obligation failed in unit %s (line %d: %s): %s' % (name, line, text, d.get('message')))
        # the failed clause itself (primary span): a clause over the ghost step counter is the cost contract (C02), not a value contract
        clause = ''
        for sp in d.get('spans', []):
            if sp.get('is_primary') and sp.get('text'):
                clause = ' '.join(t['text'][max(0, t.get('highlight_start', 1) - 1):max(0, t.get('highlight_end', len(t['text']) + 1) - 1)].strip()
                                  for t in sp['text'])
        if kind in ('post', 'invariant') and (re.search(r'\bp?steps\b', clause) or re.match(r'\s*(res is Ok ==> )?(ssize|ssize_seq|cost)\(', clause)):
            kind = 'cost'
        # a loop invariant that only restates the value specification of the node is a value clause, not an iteration cap
        if kind == 'invariant' and re.match(r'\s*(spec_eval\(expr\) is Free|!\(expr is Med\))', clause):
            kind = 'post'
        # Tokenizer::next: which lexical class the failed clause of the lexical specification is about (its antecedent says so) - an
        # arm that was merged, split or renamed by a change has no owner of its own, the clause still has
        if kind == 'post' and fname == 'next':
            ante = clause.split('==>')[0]
            if '!is_super(' in ante and '!is_word_start(' in ante:
                kind = 'post:other'
            elif 'is_super(' in ante:
                kind = 'post:super'
            elif 'is_word_start(' in ante:
                kind = 'post:word'
            elif 'is_sym_start(' in ante:
                kind = 'post:sym'
            elif 'is_digit(' in ante or "'.'" in ante:
                kind = 'post:lit'
        # the progress clause of a parser method (a successful call consumes a token): the measure of the parser's loops and recursion
        if kind == 'post' and re.match(r'\s*res is Ok ==> final\(self\)\.stream\(\)\.len\(\) < old\(self\)\.stream\(\)\.len\(\)\s*$', clause):
            kind = 'progress'
        failures.append(dict(fn=fname, arm=arm, kind=kind, line=line, text=text, message=d.get('message'), clause=clause[:300],
                             rendered=d.get('rendered', '')[:1500]))

    # which T5 functions need arm splitting: any failure or resource limit inside them
    for kind, d in w['verif']:
        line, _ = _diag_line(d)
        fname, _arm = _locate(fns, line)
        if fname and fns[fname]['arms']:
            split_fns.add(fname)
    for msg, d in w['undecided']:
        line, _ = _diag_line(d)
        fname, _arm = _locate(fns, line)
        if fname and fns[fname]['arms']:
            split_fns.add(fname)
        else:
            undecided.append('%s @ generated line %d (%s)' % (msg, line, fname or 'spec side'))
    for fname in always_split:
        if fname in fns and fns[fname]['arms']:
            split_fns.add(fname)
    for kind, d in w['verif']:
        line, _ = _diag_line(d)
        fname, _arm = _locate(fns, line)
        if fname in split_fns and fname not in always_split:
            continue
        absorb(kind, d, fns)

    # arm splitting (DESIGN 8): one run per arm, all other arms pruned; the runs together cover every path
    split_runs = 0
    if split_fns or presplit:
        import concurrent.futures as cf
        jobs = []
        with cf.ThreadPoolExecutor(max_workers=split_workers) as ex:
            for fname in sorted(split_fns):
                for k, arm in enumerate(fns[fname]['arms']):
                    o = '%s_split_%s_%d.rs' % (base, fname, k)
                    fo = {fname: {k}}
                    if (fname, k) in presplit:
                        fo['inner'] = {(fname, k): set()}
                    jobs.append((fname, k, arm, o, ex.submit(
                        _verus_once, unit, repo, o, scratch, features, rlimit, 6, fo,
                        ['--verify-root', '--verify-function', VERIFY_FN_ALIAS.get(fname, fname)])))
            for (fname, k), nsub in sorted(presplit.items()):
                for j in range(nsub):
                    o = '%s_split_%s_%d_%d.rs' % (base, fname, k, j)
                    fo = {fname: {k}, 'inner': {(fname, k): {j}}}
                    arm = dict(pat=fns[fname]['arms'][k]['pat'] + ' / ' + fns[fname]['arms'][k]['sub'][j]['pat'])
                    jobs.append((fname, k, arm, o, ex.submit(
                        _verus_once, unit, repo, o, scratch, features, rlimit, 6, fo,
                        ['--verify-root', '--verify-function', VERIFY_FN_ALIAS.get(fname, fname)])))
            for fname, k, arm, o, fut in jobs:
                sw = fut.result()
                split_runs += 1
                queries += 1
                cache_hits += 1 if sw.get('from_cache') else 0
                total_wall += 0  # parallel; wall accounted by the caller
                if sw['compile_errors']:
                    undecided.append('split run %s/%s rejected by the verus front end: %s'
                                     % (fname, arm_label(arm['pat']), '; '.join(sw['compile_errors'][:2])))
                    continue
                for msg, d in sw['undecided']:
                    undecided.append('resource limit in %s arm %s' % (fname, arm_label(arm['pat'])))
                for kind, d in sw['verif']:
                    absorb(kind, d, sw['meta']['functions'], restrict_fn=fname)
        cmds.append('arm splitting: %d runs of `verus <unit>.split.<fn>.<k>.rs --verify-root --verify-function <fn>` '
                    '(every other arm pruned with assume(false))' % split_runs)
    # dedupe
    seen = set()
    uniq = []
    for f in failures:
        key = (f['fn'], f['arm'], f['kind'], f['text'])
        if key not in seen:
            seen.add(key)
            uniq.append(f)
    failures = uniq

    # A failed obligation is a verdict only where the proof had what it needs:
    #  (a) a ghost hint of function F is anchored on a line of F's body; if that line is gone the proof of F misses a step;
    #  (b) a helper function that a change introduced (not in the inventory of the pinned tree, no contract) tells its caller nothing.
    # In both cases a failure in that function / in code calling the helper is UNDECIDED, never a violation.
    lost_fns = set(h['fn'] for h in meta.get('lost_hints', []))
    # only functions defined in the extracted source part of the generated file (not in the contract prelude / postlude)
    _gl = gen.split('\n')
    _src = '\n'.join(_gl[meta.get('prelude_lines', [0, 0])[1]:max(0, meta.get('postlude_line', len(_gl)) - 1)])
    new_helpers = _new_helpers(unit, _src, fns)
    kept = []
    for f in failures:
        if f['fn'] in lost_fns:
            undecided.append('obligation %s/%s [%s]: the proof hint anchored on a body line of %s lost its anchor (the function text changed): undecided'
                             % (f['fn'], f['arm'] or '-', f['kind'], f['fn']))
            continue
        callee = _calls_new_helper(gen, fns, f, new_helpers)
        if callee:
            undecided.append('obligation %s/%s [%s]: the code calls `%s`, a function the change introduced and for which there is no contract: undecided'
                             % (f['fn'], f['arm'] or '-', f['kind'], callee))
            continue
        kept.append(f)
    failures = kept
    if undecided and not failures:
        raise Undecided('unit %s: %s' % (name, '; '.join(undecided[:3])))

    # enumerate obligations
    obligations = []
    for fname, e in sorted(fns.items()):
        if e['arms']:
            for a in e['arms']:
                obligations.append(dict(name='V:%s/%s/%s' % (unit, fname, arm_label(a['pat'])), fn=fname, arm=arm_label(a['pat'])))
                for sa in a.get('sub', []):
                    lab = arm_label(a['pat']) + '/' + arm_label(sa['pat'])
                    obligations.append(dict(name='V:%s/%s/%s' % (unit, fname, lab), fn=fname, arm=lab))
            obligations.append(dict(name='V:%s/%s/-' % (unit, fname), fn=fname, arm=None))
        else:
            obligations.append(dict(name='V:%s/%s' % (unit, fname), fn=fname, arm=None))
    for o in obligations:
        o['failures'] = [f for f in failures if f['fn'] == o['fn'] and f['arm'] == o['arm']]
    times = {}
    try:
        for m in res['times-ms']['smt']['smt-run-module-times']:
            for f in m.get('function-breakdown', []):
                times[f['function'].split('::', 1)[-1]] = f['time'] / 1000.0
    except Exception:
        pass
    vr = res.get('verification-results', {})
    canary_problems = ['canary %s of unit %s verified although it must fail (the engine is not checking)' % (cn, name)
                       for cn, c in canaries.items() if c[2] == 0]
    return dict(unit=name, base_unit=unit, obligations=obligations, failures=failures, meta=meta, wall_s=total_wall,
                verus_verified=vr.get('verified', 0), verus_errors=vr.get('errors', 0), fn_times=times,
                smt_total_s=res['times-ms'].get('smt', {}).get('total', 0) / 1000.0,
                cmd='; '.join(cmds), file=out_rs, undecided=undecided, split_runs=split_runs,
                verus_version=res.get('verus', {}).get('version'), canary_problems_pre=canary_problems,
                canaries=len(canaries), queries=queries, cache_hits=cache_hits)


_INV = []


def _new_helpers(unit, gen, fns):
    """names of functions defined in the source part of the generated file that are neither in the pinned tree's inventory nor contracted"""
    if not _INV:
        try:
            _INV.append(json.load(open(os.path.join(VERIF, 'contracts', 'fn_inventory.json')))['units'])
        except Exception:
            _INV.append({})
    inv = _INV[0].get(unit)
    if inv is None:
        return set()
    import rsrc
    names = set(rsrc.fn_names(gen))
    known = set(inv) | set(k.split('#')[0] for k in fns)
    out = set()
    for n in names - known:
        # prelude / postlude helpers of the contract files are named verif_*, lemma_*, axiom_*, canary_*, c_*, dec_c_* or are spec functions
        if re.match(r'(verif_|lemma_|axiom_|canary_|c_|dec_c_|ax_)', n):
            continue
        if re.search(r'(spec|proof)\s+fn\s+%s\b' % re.escape(n), gen):
            continue
        if re.search(r'#\[verifier::external_body\]\s*(pub\s+)?fn\s+%s\b' % re.escape(n), gen) or re.search(r'assume_specification[^;]*\b%s\b' % re.escape(n), gen):
            continue
        out.add(n)
    return out


def _calls_new_helper(gen, fns, f, new_helpers):
    if not new_helpers:
        return None
    e = fns.get(f['fn'])
    if not e:
        return None
    lo, hi = e['line_start'], e['line_end']
    if f.get('arm'):
        for a in e['arms']:
            if arm_label(a['pat']) == f['arm'].split('/')[0]:
                lo, hi = a['line_start'], a['line_end']
    region = '\n'.join(gen.split('\n')[lo - 1:hi])
    # transitively: a helper called from the region, or a helper called by such a helper
    for n in sorted(new_helpers):
        if re.search(r'\b%s\s*\(' % re.escape(n), region):
            return n
    return None


def _loc_text(d):
    for sp in d.get('spans', []):
        if sp.get('is_primary'):
            return '%s:%d' % (sp.get('file_name'), sp.get('line_start'))
    return '?'


def scan_assumptions(path):
    """Mechanical scan of a generated file for everything that is assumed rather than proved."""
    out = []
    src = open(path, encoding='utf-8').read().split('\n')
    for i, ln in enumerate(src):
        s = ln.strip()
        if s.startswith('//'):
            continue
        m = re.search(r'assume_specification\s*(?:<[^>]*>)?\s*\[\s*([^\]]+)\]', s)
        if m:
            out.append('assume_specification ' + re.sub(r'\s+', '', m.group(1)))
        elif 'external_body' in s:
            # name of the following item
            for j in range(i + 1, min(i + 4, len(src))):
                mm = re.search(r'\b(fn|struct|type)\s+(\w+)', src[j])
                if mm:
                    out.append('external_body %s %s' % (mm.group(1), mm.group(2)))
                    break
        elif re.search(r'\bassume\s*\(', s):
            out.append('assume at generated line %d: %s' % (i + 1, s[:80]))
        elif re.search(r'\badmit\s*\(', s):
            out.append('admit at generated line %d' % (i + 1))
        elif 'uninterp spec fn' in s:
            mm = re.search(r'uninterp spec fn (\w+)', s)
            out.append('uninterpreted ' + mm.group(1))
        elif 'global size_of' in s:
            out.append(s.rstrip(';'))
        elif 'exec_allows_no_decreases_clause' in s or 'verifier::truncate' in s:
            out.append(s)
    return sorted(set(out))
