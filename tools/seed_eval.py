#!/usr/bin/env python3
"""Evaluate one seeded property-breaking change (from an independent sub-agent) against the checks.

    seed_eval.py <seed dir with patch.diff demo.rs notes.txt> <property id> <name> [extra property ids...]

Confirms in a scratch worktree that the change applies, the 531 existing tests still pass, the demonstration
fails with the change and passes without it; then runs ./check <pid> against the changed tree and files
everything under /verif/seeded/<name>/.
"""
import json
import os
import re
import shutil
import subprocess
import sys
import time

VERIF = os.path.dirname(os.path.dirname(os.path.abspath(__file__)))


def sh(cmd, cwd=None, env=None, timeout=3600):
    p = subprocess.run(cmd, shell=True, cwd=cwd, capture_output=True, text=True, env=env, timeout=timeout)
    return p.returncode, p.stdout + p.stderr


def main():
    seed, pid, name = sys.argv[1], sys.argv[2], sys.argv[3]
    extra = sys.argv[4:]
    wt = '/tmp/sv-' + name
    sh('git -C /repo worktree remove --force %s' % wt)
    rc, out = sh('git -C /repo worktree add -q --detach %s HEAD' % wt)
    assert rc == 0, out
    meta = dict(name=name, property=pid, source='independent sub-agent given only the property text and a scratch worktree',
                notes=open(os.path.join(seed, 'notes.txt')).read() if os.path.exists(os.path.join(seed, 'notes.txt'))
                else (json.load(open(os.path.join(seed, 'meta.json'))).get('notes', '') if os.path.exists(os.path.join(seed, 'meta.json')) else ''),
                repo_commit=sh('git -C /repo rev-parse --short HEAD')[1].strip(), ran=[])
    try:
        rc, out = sh('git apply %s' % os.path.join(seed, 'patch.diff'), cwd=wt)
        if rc != 0:
            rc, out = sh('git apply --3way %s' % os.path.join(seed, 'patch.diff'), cwd=wt)
        meta['applies'] = rc == 0
        if rc != 0:
            meta['apply_output'] = out[-800:]
            print('patch does not apply:', out[-400:])
            return finish(meta, seed, name, wt)
        os.makedirs(os.path.join(wt, 'tests'), exist_ok=True)
        rc, out = sh('cargo test --offline 2>&1 | grep "test result" | head -1', cwd=wt)
        meta['suite_with_change'] = out.strip()
        meta['ran'].append('cargo test --offline (with change): ' + out.strip())
        is_sh = os.path.exists(os.path.join(seed, 'demo.sh'))
        if is_sh:
            rc, out = sh('bash %s' % os.path.join(seed, 'demo.sh'), cwd=wt)
            meta['demo_with_change'] = 'demo.sh exit %d%s' % (rc, ' FAILED' if rc != 0 else ' ok.')
            sh('git clean -fdq -e target', cwd=wt)
        else:
            shutil.copy(os.path.join(seed, 'demo.rs'), os.path.join(wt, 'tests', 'demo.rs'))
            rc, out = sh('cargo test --offline --test demo 2>&1 | grep "test result" | tail -1', cwd=wt)
            meta['demo_with_change'] = out.strip()
            os.remove(os.path.join(wt, 'tests', 'demo.rs'))
        meta['ran'].append('demonstration (with change): ' + meta['demo_with_change'])
        # checks against the changed tree
        env = dict(os.environ, VERIF_REPO=wt)
        res = {}
        for p in [pid] + extra:
            t = time.time()
            rc, out = sh('./check %s' % p, cwd=VERIF, env=env)
            lines = [l for l in out.split('\n') if l.startswith(('VIOLATION', 'UNDECIDED', 'OK ', 'KNOWN', 'obligation'))]
            lines.sort(key=lambda l: 0 if l.startswith(('obligation', 'VIOLATION', 'UNDECIDED')) else 1)
            res[p] = dict(exit=rc, lines=[l[:300] for l in lines][:16], wall_s=round(time.time() - t, 1))
            meta['ran'].append('VERIF_REPO=<worktree with change> ./check %s -> exit %d' % (p, rc))
            print(p, 'exit', rc)
            for l in lines[:6]:
                print('   ', l[:220])
        meta['checks'] = res
        meta['detected'] = res[pid]['exit'] == 1
        # demo without the change
        sh('git reset -q --hard HEAD && git clean -fdq', cwd=wt)
        os.makedirs(os.path.join(wt, 'tests'), exist_ok=True)
        if is_sh:
            rc, out = sh('bash %s' % os.path.join(seed, 'demo.sh'), cwd=wt)
            meta['demo_without_change'] = 'demo.sh exit %d%s' % (rc, ' FAILED' if rc != 0 else ' ok.')
        else:
            shutil.copy(os.path.join(seed, 'demo.rs'), os.path.join(wt, 'tests', 'demo.rs'))
            rc, out = sh('cargo test --offline --test demo 2>&1 | grep "test result" | tail -1', cwd=wt)
            meta['demo_without_change'] = out.strip()
        meta['ran'].append('demonstration (without change): ' + meta['demo_without_change'])
        meta['confirmed'] = ('531 passed' in meta['suite_with_change'] and 'FAILED' in meta['demo_with_change']
                             and 'ok.' in meta['demo_without_change'])
    finally:
        pass
    return finish(meta, seed, name, wt)


def finish(meta, seed, name, wt):
    sh('git -C /repo worktree remove --force %s' % wt)
    shutil.rmtree(wt, ignore_errors=True)
    if meta.get('confirmed') or os.environ.get('KEEP_UNCONFIRMED'):
        d = os.path.join(VERIF, 'seeded', name)
        os.makedirs(d, exist_ok=True)
        if os.path.realpath(seed) != os.path.realpath(d):          # re-evaluation of a stored seed: files are already in place
            shutil.copy(os.path.join(seed, 'patch.diff'), os.path.join(d, 'patch.diff'))
            for fn in ('demo.rs', 'demo.sh'):
                if os.path.exists(os.path.join(seed, fn)):
                    shutil.copy(os.path.join(seed, fn), os.path.join(d, fn))
        json.dump(meta, open(os.path.join(d, 'meta.json'), 'w'), indent=1)
    print(json.dumps({k: meta.get(k) for k in ('name', 'applies', 'confirmed', 'detected', 'suite_with_change', 'demo_with_change', 'demo_without_change')}))


if __name__ == '__main__':
    main()
