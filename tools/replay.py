"""Replay files: the failed obligation, the verifier's output, and - where one is found - a public-API input
that shows the violation on the real crate."""
import hashlib
import json
import os
import time

VERIF = os.path.dirname(os.path.dirname(os.path.abspath(__file__)))


def make_replay(pid, o, f, r, repo, scratch):
    """-> (path, failing_input_found, spurious): spurious = Kani produced a concrete test and it passes natively"""
    spurious = False
    h = hashlib.sha256(('%s|%s|%s|%s' % (pid, o['name'], f['kind'], f.get('text', ''))).encode()).hexdigest()[:12]
    path = os.path.join(VERIF, 'replays', '%s-%s.json' % (pid, h))
    doc = dict(property=pid, obligation=o['name'], failure_kind=f['kind'], failing_location=f.get('text', ''),
               engine=r.get('backend'), verifier_message=f.get('message'), verifier_output=f.get('rendered', ''),
               unit=r.get('unit'), created=time.strftime('%Y-%m-%dT%H:%M:%S'))
    found = False
    try:
        import witness
        w = witness.search(pid, o, f, r, repo, scratch)
        if w:
            doc['failing_input'] = w
            found = True
    except Exception as e:  # the witness search never decides anything
        doc['witness_search_error'] = repr(e)
    if f.get('harness'):
        try:
            import kani_unit
            cp = kani_unit.concrete_playback(f['group'], f['harness'], repo, scratch)
            doc['counterexample'] = cp
            kind = f.get('kind', '')
            if any(t.get('native_run') == 'passed' for t in cp.get('tests', [])) and not cp.get('reproduced') \
                    and 'unwind' not in kind and 'unwind' not in (f.get('message') or ''):
                spurious = True     # the generated test RAN natively and the harness's assertion held
            if cp.get('reproduced'):
                found = True
                doc['failing_input'] = dict(kind='kani concrete playback, executed natively against the crate built from /repo',
                                            harness=f['harness'], values=cp['values'], native_output=cp['output'])
        except Exception as e:
            doc['playback_error'] = repr(e)
    if f.get('counterexample'):
        doc['counterexample'] = f['counterexample']
        found = found or bool(f.get('replayed'))
    if not found:
        doc['note'] = 'no-failing-input-found: the verifier gave no counterexample and no witness candidate disagreed'
    os.makedirs(os.path.dirname(path), exist_ok=True)
    with open(path, 'w') as fh:
        json.dump(doc, fh, indent=1)
    return path, found, spurious


def replay_file(path, repo):
    doc = json.load(open(path))
    print(json.dumps({k: doc[k] for k in ('property', 'obligation', 'failure_kind') if k in doc}))
    if 'failing_input' in doc:
        import witness
        return witness.rerun(doc, repo)
    print('no failing input recorded; verifier output follows')
    print(doc.get('verifier_output', ''))
    return 0
