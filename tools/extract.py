#!/usr/bin/env python3
"""Mechanical extraction of /repo source text into one Verus file per unit.

    extract.py <unit> <repo> <out.rs>         writes out.rs and out.rs.map.json

A *unit* is described in UNITS below: which files (or which items of a file) are
taken, which of the documented rewrites T1..T12 apply, and which contract file
(`contracts/<unit>.vspec`) is spliced in.  Every byte of a function body that is
not touched by a listed rewrite is the byte from /repo's working tree.

Exit status: 0 ok, 2 lost anchor / unsupported shape (undecided - never a violation).
"""
import hashlib
import json
import os
import re
import sys

sys.path.insert(0, os.path.dirname(os.path.abspath(__file__)))
import rsrc  # noqa: E402
from rsrc import LostAnchor  # noqa: E402

VERIF = os.path.dirname(os.path.dirname(os.path.abspath(__file__)))


# --------------------------------------------------------------------------------------
# contract files
# --------------------------------------------------------------------------------------
class Contracts:
    """Parsed .vspec file.

    @@ prelude                      text placed at the top of the verus! block
    @@ postlude                     text placed at the end of the verus! block (lemmas, witnesses)
    @@ fn NAME [ret=IDENT] [arms] [nth=K]
         clause lines (requires / ensures / decreases ...) spliced between signature and body
    @@ loop FN K [iter=IDENT]       clause lines spliced between the K-th loop header of FN and its body
    @@ hint FN before|after "ANCHOR TEXT"
         ghost text inserted before/after the unique line of FN containing ANCHOR TEXT
    @@ drop FN                      the function is not taken into the unit (stated in the map)
    @@ external_body FN             the function keeps its body but is marked #[verifier::external_body]
    @@ looppre FN K                 ghost text inserted on the line before the K-th loop of FN
    @@ loopbody FN K / loopend FN K ghost text inserted at the start / end of the K-th loop body of FN
    @@ looppost FN K                ghost text inserted right after the K-th loop of FN
    @@ armpre FN "PATTERN"          ghost text inserted at the start of the arm PATTERN of FN's tail match (needs `arms`)
    @@ innermatch FN "PATTERN"      the first `match` inside that arm has arms that are obligations of their own
    @@ bodypre FN                   ghost text inserted right after the opening brace of FN's body
    """

    def __init__(self, path, ftag=''):
        self.path = path
        self.prelude = []
        self.postlude = []
        self.fns = {}      # (name, nth) -> dict(ret, arms, text)
        self.loops = {}    # (fn, k) -> dict(iter, text)
        self.hints = []    # dict(fn, where, anchor, text)
        self.looppre = {}  # (fn, k) -> text inserted before the loop statement
        self.loopbody = {}  # (fn, k) -> ghost text inserted at the start of the loop body
        self.loopend = {}   # (fn, k) -> ghost text inserted at the end of the loop body
        self.looppost = {}  # (fn, k) -> ghost text inserted after the loop statement
        self.armpre = {}    # (fn, arm pattern) -> ghost text inserted at the start of that arm of the tail match
        self.innermatch = set()  # (fn, arm pattern): the arm's first inner match is split into sub-obligations
        self.bodypre = {}  # fn -> ghost text inserted right after the opening brace of the body
        self.drop = set()
        self.extbody = set()
        self.includes = []
        cur = None
        lines = []
        def read(p, depth=0):
            for raw in open(p, encoding='utf-8').read().split('\n'):
                m = re.match(r'@@\s*include\s+(\S+)', raw)
                if m and depth < 4:
                    inc = os.path.join(os.path.dirname(path), m.group(1).replace('$FT', ftag))
                    if inc in self.includes:
                        continue            # each include file enters a unit once
                    self.includes.append(inc)
                    read(inc, depth + 1)
                else:
                    lines.append(raw)
        read(path)
        for raw in lines:
            if raw.startswith('@@'):
                parts = raw[2:].split()
                kind = parts[0]
                if kind == 'prelude':
                    cur = self.prelude
                elif kind == 'postlude':
                    cur = self.postlude
                elif kind == 'fn':
                    opts = dict(p.split('=') if '=' in p else (p, True) for p in parts[2:])
                    cur = []
                    self.fns[(parts[1], int(opts.get('nth', 0)))] = dict(
                        ret=opts.get('ret'), arms=bool(opts.get('arms')), text=cur)
                elif kind == 'loop':
                    opts = dict(p.split('=') if '=' in p else (p, True) for p in parts[3:])
                    cur = []
                    self.loops[(parts[1], int(parts[2]))] = dict(iter=opts.get('iter'), text=cur)
                elif kind == 'bodypre':
                    cur = []
                    self.bodypre[parts[1]] = cur
                elif kind == 'innermatch':
                    m = re.match(r'@@\s*innermatch\s+(\S+)\s+"(.*)"\s*$', raw)
                    if not m:
                        raise SystemExit("bad innermatch line in %s: %s" % (path, raw))
                    self.innermatch.add((m.group(1), m.group(2)))
                    cur = None
                elif kind == 'armpre':
                    m = re.match(r'@@\s*armpre\s+(\S+)\s+"(.*)"\s*$', raw)
                    if not m:
                        raise SystemExit("bad armpre line in %s: %s" % (path, raw))
                    cur = []
                    self.armpre[(m.group(1), m.group(2))] = cur
                elif kind in ('loopbody', 'loopend', 'looppost'):
                    cur = []
                    getattr(self, kind)[(parts[1], int(parts[2]))] = cur
                elif kind == 'looppre':
                    cur = []
                    self.looppre[(parts[1], int(parts[2]))] = cur
                elif kind in ('hint', 'hintalt'):
                    # `@@ hintalt` is an alternative formulation of the preceding `@@ hint` (same proof step for another way of writing the
                    # anchored line): the first alternative whose anchor is found is spliced; the hint is lost only if none is
                    m = re.match(r'@@\s*hint(?:alt)?\s+(\S+)\s+(before|after)\s+"(.*)"\s*$', raw)
                    if not m:
                        raise SystemExit("bad hint line in %s: %s" % (path, raw))
                    cur = []
                    grp = (self.hints[-1]['group'] if (kind == 'hintalt' and self.hints) else len(self.hints))
                    self.hints.append(dict(fn=m.group(1), where=m.group(2), anchor=m.group(3), text=cur, group=grp))
                elif kind == 'drop':
                    self.drop.add(parts[1])
                    cur = None
                elif kind == 'external_body':
                    self.extbody.add(parts[1])
                    cur = None
                else:
                    raise SystemExit("unknown directive in %s: %s" % (path, raw))
            elif raw.startswith('##'):
                continue
            elif cur is not None:
                cur.append(raw)


# --------------------------------------------------------------------------------------
# text-level rewrites (documented in DESIGN.md section 4.2)
# --------------------------------------------------------------------------------------
class Rewriter:
    def __init__(self, log):
        self.log = log

    def count(self, tid, n, what=''):
        self.log.setdefault(tid, 0)
        self.log[tid] += n

    def t3_uses_and_cfg(self, s, features):
        """T3: drop `use`/`mod` lines (single-file layout); resolve #[cfg(feature=..)] on enum variants."""
        out = []
        lines = s.split('\n')
        i = 0
        n = 0
        while i < len(lines):
            ln = lines[i]
            st = ln.strip()
            if re.match(r'^(pub\s+)?use\s', st) and not ln.startswith(' '):
                # top-level use item, possibly multi-line
                while not lines[i].rstrip().endswith(';'):
                    i += 1
                i += 1
                n += 1
                continue
            if re.match(r'^(pub\s+)?mod\s+\w+;', st) and not ln.startswith(' '):
                i += 1
                n += 1
                continue
            m = re.match(r'^#\[cfg\(feature\s*=\s*"(\w+)"\)\]$', st)
            if m:
                n += 1
                if m.group(1) in features:
                    i += 1          # keep the guarded line
                else:
                    i += 2          # drop the guarded (single-line) item
                continue
            out.append(ln)
            i += 1
        self.count('T3', n)
        return '\n'.join(out)

    def t2_derives(self, s):
        """T2: remove #[derive(..)] lines; the structural specs are supplied by the contract prelude."""
        s2, n = re.subn(r'^[ \t]*#\[derive\([^\]]*\)\]\n', '', s, flags=re.M)
        self.count('T2', n)
        return s2

    def t1_error_type(self, s):
        s2, n = re.subn(r'Box<dyn (?:std::)?(?:error::)?Error>', 'EvalError', s)
        self.count('T1', n)
        return s2

    def t7_format(self, s):
        """T7: format!(..) -> verif_msg()"""
        mask = rsrc.code_mask(s)
        out = []
        i = 0
        n = 0
        for m in re.finditer(r'\bformat!\(', s):
            if not mask[m.start()] or m.start() < i:
                continue
            close = rsrc.match_close(s, m.end() - 1)
            out.append(s[i:m.start()])
            out.append('verif_msg()')
            i = close + 1
            n += 1
        out.append(s[i:])
        self.count('T7', n)
        return ''.join(out)

    def literal(self, tid, s, old, new, expect=None):
        c = s.count(old)
        if expect is not None and c != expect:
            raise LostAnchor("%s: expected %d occurrence(s) of %r, found %d" % (tid, expect, old, c))
        if c == 0 and expect is None:
            return s
        self.count(tid, c)
        return s.replace(old, new)

    def regex(self, tid, s, pat, repl, expect_min=0):
        s2, n = re.subn(pat, repl, s)
        if n < expect_min:
            raise LostAnchor("%s: pattern %r matched %d time(s), expected >= %d" % (tid, pat, n, expect_min))
        self.count(tid, n)
        return s2


def take_items(s, names):
    """Return the text of the named top-level items (enum X / struct X / fn x / impl X) in source order."""
    out = []
    mask = rsrc.code_mask(s)
    for name in names:
        kind, ident = name.split()
        m = None
        for mm in re.finditer(r'(?m)^(?:pub(?:\([a-z]+\))?\s+)?' + kind + r'\s+' + re.escape(ident) + r'\b', s):
            if mask[mm.start()]:
                m = mm
                break
        if not m:
            raise LostAnchor("item `%s` not found" % name)
        # include attribute lines directly above
        start = m.start()
        while True:
            prev = s.rfind('\n', 0, start - 1)
            line = s[prev + 1:start - 1] if start > 0 else ''
            if line.strip().startswith('#['):
                start = prev + 1
            else:
                break
        if kind == 'fn':
            a, bo, bc = rsrc.find_fn(s, ident)
            out.append(s[start:bc + 1])
            continue
        brace = s.index('{', m.end())
        close = rsrc.match_close(s, brace)
        out.append(s[start:close + 1])
    return '\n\n'.join(out) + '\n'


# --------------------------------------------------------------------------------------
# contract splicing
# --------------------------------------------------------------------------------------
def splice(s, con, rw, fnmap_sink, focus=None):
    """Apply @@fn / @@loop / @@hint / arms(T5) / drop / external_body to source text `s`."""
    edits = []   # (offset, delete_len, text)
    lost_hints = []
    names = rsrc.fn_names(s)

    for fname in con.drop:
        if fname in names:
            a, b, c = rsrc.find_fn(s, fname)
            # include preceding attributes/doc lines
            ls = s.rfind('\n', 0, a) + 1
            edits.append((ls, c + 1 - ls, '// [extract] fn %s dropped from this unit\n' % fname))
            rw.count('drop', 1)

    for fname in con.extbody:
        if fname in names:
            a, b, c = rsrc.find_fn(s, fname)
            ls = s.rfind('\n', 0, a) + 1
            edits.append((ls, 0, '#[verifier::external_body]\n'))
            rw.count('external_body', 1)

    for (fname, nth), spec in con.fns.items():
        if fname not in names or fname in con.drop:
            continue
        a, body_open, body_close = rsrc.find_fn(s, fname, nth)
        sig = s[a:body_open]
        new_sig = sig.rstrip()
        if spec['ret']:
            # name the return value:  -> T   =>   -> (ret: T)
            depth = 0
            arrow = None
            i = 0
            while i < len(sig) - 1:
                ch = sig[i]
                if ch in '(<[':
                    depth += 1
                elif ch in ')]':
                    depth -= 1
                elif ch == '>' and sig[i - 1] != '-':
                    depth -= 1
                elif ch == '-' and sig[i + 1] == '>' and depth == 0:
                    arrow = i
                    break
                i += 1
            if arrow is None:
                raise LostAnchor("fn %s: no return type to name" % fname)
            rtype = sig[arrow + 2:].strip()
            wh = ''
            mw = re.search(r'\bwhere\b', rtype)
            if mw:
                wh = ' ' + rtype[mw.start():]
                rtype = rtype[:mw.start()].strip()
            new_sig = sig[:arrow] + '-> (%s: %s)%s' % (spec['ret'], rtype, wh)
        clauses = '\n'.join(spec['text']).rstrip()
        edits.append((a, body_open - a, new_sig + '\n' + clauses + '\n'))
        rw.count('T4-fn', 1)

        if spec['arms']:
            tm = rsrc.tail_match(s, body_open, body_close)
            if tm is None:
                raise LostAnchor("fn %s: body does not end in a match (T5)" % fname)
            arms = rsrc.match_arms(s, tm[1], tm[2])
            pre_used = set()
            for arm_index, arm in enumerate(arms):
                pat = re.sub(r'\s+', ' ', arm['pat'])
                if focus and fname in focus and arm_index not in focus[fname]:
                    # arm splitting (DESIGN 8): this run checks other arms; prune this path
                    edits.append((arm['body_start'], arm['body_end'] - arm['body_start'],
                                  'return { assume(false); vstd::pervasive::unreached() }' + (',' if arm['is_block'] else '')))
                    if (fname, pat) in con.armpre:
                        pre_used.add(pat)
                    rw.count('split-pruned-arm', 1)
                    continue
                if (fname, pat) in con.innermatch:
                    im = rsrc.inner_match(s, arm['body_start'], arm['body_end'])
                    if im is None:
                        raise LostAnchor("fn %s arm %s: inner match not found" % (fname, pat))
                    fi = (focus or {}).get('inner', {}).get((fname, arm_index))
                    if fi is not None:
                        for j, ia in enumerate(rsrc.match_arms(s, im[1], im[2])):
                            if j not in fi:
                                edits.append((ia['body_start'], ia['body_end'] - ia['body_start'],
                                              '{ assume(false); vstd::pervasive::unreached() }'))
                                rw.count('split-pruned-inner-arm', 1)
                    fnmap_sink.setdefault((fname, nth), {}).setdefault('inner', []).append(pat)
                pre = con.armpre.get((fname, pat))
                if pre is not None:
                    pre_used.add(pat)
                    ghost = '\n' + '\n'.join(pre).rstrip() + '\n'
                    if arm['is_block']:
                        edits.append((arm['body_start'], 0, 'return '))
                        edits.append((arm['body_start'] + 1, 0, ghost))
                        edits.append((arm['body_end'], 0, ','))
                    else:
                        edits.append((arm['body_start'], 0, '{' + ghost + 'return '))
                        edits.append((arm['body_end'], 0, '; }'))
                    rw.count('T4-armpre', 1)
                    continue
                edits.append((arm['body_start'], 0, 'return '))
                if arm['is_block']:
                    # `PAT => return { .. }` needs a separating comma
                    edits.append((arm['body_end'], 0, ','))
            for (f2, pat) in con.armpre:
                if f2 == fname and pat not in pre_used:
                    raise LostAnchor("fn %s: arm `%s` not found (armpre)" % (fname, pat))
            rw.count('T5', len(arms))
            fnmap_sink.setdefault((fname, nth), {})['arms'] = True
        fnmap_sink.setdefault((fname, nth), {})['clauses'] = clauses

    for (fname, k), spec in con.loops.items():
        if fname not in names or fname in con.drop:
            continue
        a, body_open, body_close = rsrc.find_fn(s, fname)
        loops = rsrc.find_loops(s, body_open, body_close)
        if k >= len(loops):
            raise LostAnchor("fn %s: loop #%d not found (%d loops)" % (fname, k, len(loops)))
        lp = loops[k]
        text = '\n' + '\n'.join(spec['text']).rstrip() + '\n'
        edits.append((lp['header_end'], 0, text))
        if spec['iter']:
            if lp['kw'] != 'for':
                raise LostAnchor("fn %s loop %d: iter= on a non-for loop" % (fname, k))
            m = re.match(r'for\s+(.+?)\s+in\s+', s[lp['kw_start']:lp['header_end']], flags=re.S)
            edits.append((lp['kw_start'] + m.end(), 0, spec['iter'] + ': '))
        rw.count('T4-loop', 1)

    for fkey, text in con.bodypre.items():
        fname, _, nth = fkey.partition('#')          # `@@ bodypre FN#k`: the k-th fn of that name
        if fname not in names or fname in con.drop:
            continue
        a, body_open, body_close = rsrc.find_fn(s, fname, int(nth or 0))
        edits.append((body_open + 1, 0, '\n' + '\n'.join(text).rstrip() + '\n'))
        rw.count('T4-bodypre', 1)

    for (fname, k), text in con.looppre.items():
        if fname not in names or fname in con.drop:
            continue
        a, body_open, body_close = rsrc.find_fn(s, fname)
        loops = rsrc.find_loops(s, body_open, body_close)
        if k >= len(loops):
            raise LostAnchor("fn %s: loop #%d not found (%d loops)" % (fname, k, len(loops)))
        ls = s.rfind('\n', 0, loops[k]['kw_start']) + 1
        if s[ls:loops[k]['kw_start']].strip():
            raise LostAnchor("fn %s: loop #%d does not start its line" % (fname, k))
        edits.append((ls, 0, '\n'.join(text).rstrip() + '\n'))
        rw.count('T4-looppre', 1)

    for which, table in (('loopbody', con.loopbody), ('loopend', con.loopend), ('looppost', con.looppost)):
        for (fname, k), text in table.items():
            if fname not in names or fname in con.drop:
                continue
            a, body_open, body_close = rsrc.find_fn(s, fname)
            loops = rsrc.find_loops(s, body_open, body_close)
            if k >= len(loops):
                raise LostAnchor("fn %s: loop #%d not found (%d loops)" % (fname, k, len(loops)))
            if which == 'loopbody':
                edits.append((loops[k]['header_end'] + 1, 0, '\n' + '\n'.join(text).rstrip() + '\n'))
            elif which == 'looppost':
                edits.append((loops[k]['body_close'] + 1, 0, '\n' + '\n'.join(text).rstrip() + '\n'))
            else:
                edits.append((loops[k]['body_close'], 0, '\n'.join(text).rstrip() + '\n'))
            rw.count('T4-' + which, 1)

    done_groups = set()
    pending_lost = {}
    for h in con.hints:
        fname = h['fn']
        if fname not in names or fname in con.drop:
            continue
        if h['group'] in done_groups:
            continue
        a, body_open, body_close = rsrc.find_fn(s, fname)
        body = s[body_open:body_close]
        cnt = body.count(h['anchor'])
        if cnt != 1:
            pending_lost.setdefault(h['group'], dict(fn=fname, anchor=h['anchor'], found=cnt))
            continue
        done_groups.add(h['group'])
        pending_lost.pop(h['group'], None)
        off = body_open + body.index(h['anchor'])
        if h['where'] == 'before':
            ls = s.rfind('\n', 0, off) + 1
            edits.append((ls, 0, '\n'.join(h['text']).rstrip() + '\n'))
        else:
            le = s.find('\n', off) + 1
            edits.append((le, 0, '\n'.join(h['text']).rstrip() + '\n'))
        rw.count('T4-hint', 1)
    lost_hints += [v for g, v in pending_lost.items() if g not in done_groups]

    # arm splitting: edits that fall inside a pruned arm disappear with it
    PR = ('return { assume(false); vstd::pervasive::unreached() }', '{ assume(false); vstd::pervasive::unreached() }')
    pruned = [(e[0], e[0] + e[1]) for e in edits if e[2].startswith(PR)]
    if pruned:
        edits = [e for e in edits if e[2].startswith(PR)
                 or not any(a <= e[0] < b or (e[0] == b and e[1] == 0 and e[2] == ',') for a, b in pruned)]
    # apply edits in source order
    edits.sort(key=lambda e: (e[0], e[1]))
    out = []
    pos = 0
    for off, dl, text in edits:
        if off < pos:
            raise LostAnchor("overlapping edits at %d" % off)
        out.append(s[pos:off])
        out.append(text)
        pos = off + dl
    out.append(s[pos:])
    new = ''.join(out)

    return new, lost_hints


# --------------------------------------------------------------------------------------
# units
# --------------------------------------------------------------------------------------
ALL_FEATURES = ['eval_decimal', 'eval_f64', 'eval_i64', 'eval_complex', 'eval_number']

STACK_DIR = {'i64': 'eval_i64', 'f64': 'eval_f64', 'number': 'eval_number',
             'decimal': 'eval_decimal', 'complex': 'eval_complex'}


def unit_def(unit):
    """-> dict(files=[(path, items|None)], contracts, rewrites=[...])"""
    stack, part = unit.split('-')
    if part == 'agree':
        # spec-only unit (C15): the Node / Number datatypes of two evaluators, each wrapped in its own module, and the
        # specification vocabularies of both; no executable function of /repo
        first = 'f64' if stack == 'f64number' else 'i64'
        files = [('src/eval_%s/ast.rs' % first, ['enum Node']), ('src/eval_number/number.rs', ['enum Number']), ('src/eval_number/ast.rs', ['enum Node'])]
        return dict(stack=stack, part=part, files=files, contracts=os.path.join(VERIF, 'contracts', unit + '.vspec'),
                    wrap=[first[0] + 'src', 'nsrc', 'nsrc'])
    d = 'src/' + STACK_DIR[stack]
    if part == 'core':
        files = [('src/utils/operator_category.rs', None), ('src/utils/parse_error.rs', ['enum ParseError']),
                 (d + '/token.rs', None)]
        if stack in ('i64', 'decimal', 'complex'):
            files.append((d + '/ast.rs', None))
        else:
            files.append((d + '/ast.rs', ['enum Node']))
        if stack == 'number':
            files.insert(2, (d + '/number.rs', ['enum Number']))
        files.append((d + '/parser.rs', None))
    elif part == 'parser':
        files = [('src/utils/operator_category.rs', None), ('src/utils/parse_error.rs', ['enum ParseError']),
                 (d + '/token.rs', None), (d + '/ast.rs', ['enum Node'])]
        if stack == 'number':
            files.insert(2, (d + '/number.rs', ['enum Number']))
        files.append((d + '/parser.rs', None))
    elif part == 'ast':
        files = [(d + '/ast.rs', None)]
        if stack == 'number':
            files.insert(0, (d + '/number.rs', None))
    elif part == 'glue':
        files = [(d + '/mod.rs', None)]          # the whole module file: the wrapper and whatever helpers it calls
    elif part == 'tok':
        files = [('src/utils/superscript.rs', None), ('src/utils/deserialize_superscript_number.rs', None),
                 (d + '/token.rs', ['enum NativeFunction', 'enum Token']), (d + '/tokenizer.rs', None)]
        if stack == 'number':
            files.insert(2, (d + '/number.rs', ['enum Number']))
    else:
        raise SystemExit("unknown unit " + unit)
    return dict(stack=stack, part=part, files=files, contracts=os.path.join(VERIF, 'contracts', unit + '.vspec'))


HEADER = '''// GENERATED by /verif/tools/extract.py from /repo's working tree - do not edit.
// unit: %(unit)s   (cfg(feature = ..) resolved for the feature set recorded in the .map.json)
#![allow(unused_imports, unused_variables, unused_mut, dead_code, unused_parens, non_snake_case)]
#![feature(allocator_api)]
#![feature(pattern)]
use vstd::prelude::*;
use std::sync::Arc;
verus! {
'''


def extract(unit, repo, out_path, features=None, focus=None):
    features = features or ALL_FEATURES
    ud = unit_def(unit)
    con = Contracts(ud['contracts'], '' if 'eval_i64' in features else '.noi64')
    log = {}
    rw = Rewriter(log)
    sha = {}
    chunks = []
    fnmap = {}
    lost_hints = []
    chunk_meta = []
    for rel, items in ud['files']:
        p = os.path.join(repo, rel)
        raw = open(p, encoding='utf-8').read()
        sha[rel] = hashlib.sha256(raw.encode()).hexdigest()
        s = rsrc.cut_tests(raw)
        if items is not None:
            s = take_items(s, items)
        s = rw.t3_uses_and_cfg(s, features)
        s = t29_split_or_guard(s, rw)
        s = t28_inline_helpers(s, unit, con, rw)
        s = rw.t2_derives(s)
        s = rw.t1_error_type(s)
        s = rw.t7_format(s)
        s = unit_rewrites(ud, rel, s, rw)
        sink = {}
        s, lh = splice(s, con, rw, sink, focus)
        lost_hints += lh
        chunks.append('// ---- from %s %s\n' % (rel, '(items: %s)' % ', '.join(items) if items else '') + s)
        chunk_meta.append((rel, sink))
    text = HEADER % dict(unit=unit, features=','.join(features))
    text += '\n'.join(con.prelude) + '\n'
    src_start = len(text)
    wanted = {}
    wrap = ud.get('wrap')
    for k, (chunk, (rel, sink)) in enumerate(zip(chunks, chunk_meta)):
        for key, info in sink.items():
            wanted[key] = (rel, info)
        if wrap and (k == 0 or wrap[k] != wrap[k - 1]):
            text += 'pub mod %s {\nuse super::*;\n' % wrap[k]
        text += chunk + '\n'
        if wrap and (k == len(chunks) - 1 or wrap[k] != wrap[k + 1]):
            text += '} // mod %s\n' % wrap[k]
    post_start = len(text)
    text += '\n'.join(con.postlude) + '\n'
    text += '} // verus!\nfn main() {}\n'

    # locate the contracted functions (and the arms of T5 functions) in the final text
    def ln(o):
        return text.count('\n', 0, o) + 1
    fn_ranges = {}
    region = text[src_start:post_start]
    for (fname, nth), (rel, info) in wanted.items():
        a, bo, bc = rsrc.find_fn(region, fname, nth)
        cl = info.get('clauses') or ''
        if cl.strip():
            # the spliced contract may contain braces (`match res { .. }`): the body is the first `{` after it
            ci = region.find(cl, a)
            if ci < 0:
                raise LostAnchor("internal: contract text of %s not found in the generated file" % fname)
            bo = region.index('{', ci + len(cl))
            bc = rsrc.match_close(region, bo)
        key = fname if nth == 0 else '%s#%d' % (fname, nth)
        e = dict(file=rel, line_start=ln(src_start + a), line_end=ln(src_start + bc), arms=[])
        if info.get('arms'):
            tm = rsrc.tail_match(region, bo, bc)
            for arm in rsrc.match_arms(region, tm[1], tm[2]):
                pat = re.sub(r'\s+', ' ', arm['pat'])
                ent = dict(pat=pat, line_start=ln(src_start + arm['pat_start']), line_end=ln(src_start + arm['body_end']), sub=[])
                if pat in info.get('inner', []):
                    im = rsrc.inner_match(region, arm['body_start'], arm['body_end'])
                    for ia in rsrc.match_arms(region, im[1], im[2]):
                        ent['sub'].append(dict(pat=re.sub(r'\s+', ' ', ia['pat']), line_start=ln(src_start + ia['pat_start']),
                                               line_end=ln(src_start + ia['body_end'])))
                e['arms'].append(ent)
        fn_ranges[key] = e
    if ud['part'] == 'agree':
        # spec-only unit: its obligations are the lemmas of the postlude (the theorem and the steps it is built from)
        post = text[post_start:]
        for m in re.finditer(r'proof fn (lemma_\w+)', post):
            a, bo, bc = rsrc.find_fn(post, m.group(1))
            fn_ranges[m.group(1)] = dict(file=os.path.relpath(ud['contracts'], VERIF), line_start=ln(post_start + a), line_end=ln(post_start + bc), arms=[])
    with open(out_path, 'w', encoding='utf-8') as f:
        f.write(text)
    csha = hashlib.sha256()
    for p in [ud['contracts']] + con.includes:
        csha.update(open(p, 'rb').read())
    meta = dict(unit=unit, features=features, sha256=sha, rewrites=log, functions=fn_ranges,
                lost_hints=lost_hints, postlude_line=ln(post_start),
                prelude_lines=[HEADER.count('\n') + 1, HEADER.count('\n') + len(con.prelude)],
                contracts_sha256=csha.hexdigest())
    with open(out_path + '.map.json', 'w') as f:
        json.dump(meta, f, indent=1)
    return meta


def unit_rewrites(ud, rel, s, rw):
    """Stack/part specific mechanical rewrites (T6, T8, T10, T12)."""
    stack, part = ud['stack'], ud['part']
    if rel.endswith('/parser.rs'):
        # T6: specialise the fn-pointer parameter of get_enclosed_elements_with_impl_mult per call site
        s = t6_specialise(s, rw)
        # T26: ghost step counter through the Parser methods (after T6, which creates the per-call-site copies)
        if part == 'parser':
            s = t26_parser_steps(s, rw)
        # T8: float constants without a Verus spec
        s = rw.literal('T8', s, 'std::f64::consts::PI', 'c_pi()')
        s = rw.literal('T8', s, 'std::f64::consts::E', 'c_e()')
        s = rw.literal('T8', s, 'Decimal::PI', 'dec_c_pi()')
        s = rw.literal('T8', s, 'Decimal::E', 'dec_c_e()')
    if part == 'glue' and stack in ('f64', 'number', 'complex'):
        s = t8_f64_consts(s, rw)
    if stack == 'decimal' and part in ('glue', 'tok', 'parser') and not rel.endswith('/ast.rs'):
        s = t8_decimal_consts(s, rw)
    if part == 'ast' and stack == 'complex':
        s = t8_f64_consts(s, rw)
    if rel.endswith('/mod.rs') and part == 'glue':
        # T19: `expr.split_whitespace().collect::<String>()` -> helper with an assumed contract (body = the original expression)
        # (tolerant of rustfmt breaking the method chain over several lines)
        pat_ws = r'expr\s*\.split_whitespace\(\)\s*\.collect::<String>\(\)'
        pat_aws = r'expr\s*\.split_ascii_whitespace\(\)\s*\.collect::<String>\(\)'
        n0 = len(re.findall(pat_ws, s)) + len(re.findall(pat_aws, s))
        if n0 != 1:
            raise LostAnchor("T19: expected one whitespace-stripping idiom `expr.split_[ascii_]whitespace().collect::<String>()`, found %d" % n0)
        s = rw.regex('T19', s, pat_ws, 'verif_strip_ws(&expr)')
        s = rw.regex('T19', s, pat_aws, 'verif_strip_ascii_ws(&expr)')
    if rel.endswith('/tokenizer.rs') or rel.endswith('deserialize_superscript_number.rs'):
        # T10: the two adapter-chain idioms -> helpers with assumed contracts (bodies are the original expressions)
        s = rw.regex('T10', s, r'self\s*\.expr\s*\.clone\(\)\s*\.take\((\d+)\)\s*\.collect::<String>\(\)', r'verif_peek_str(&self.expr, \1)')
        s = rw.regex('T10', s, r'self\s*\.expr\s*\.by_ref\(\)\s*\.take\((\d+)\)\s*\.for_each\(drop\)', r'verif_skip(&mut self.expr, \1)')
        # T25: keyword comparisons (after T10)
        s = t25_keyword_tests(s, rw)
        # T18: char / &str -> String conversions without a vstd spec -> helpers with assumed contracts (bodies = the original calls)
        s = rw.regex('T18', s, r'(superscript_digit_to_digit\(current_char\))\s*\.map\(\|c\| c\.to_string\(\)\)\s*\.unwrap_or_default\(\)', r'verif_opt_char_string(\1)')
        s = rw.literal('T18', s, 'current_char?.to_string()', 'verif_char_string(current_char?)')
        s = rw.literal('T18', s, '"0".to_string()', 'verif_str_string("0")')
        # T17: `impl Iterator for Tokenizer { type Item = Token; fn next .. }` -> inherent impl (vstd attaches its prophetic
        # iterator laws to every `Iterator::next`; the body of `next` is unchanged)
        s = rw.regex('T17', s, r"impl<'a> Iterator for Tokenizer<'a> \{\s*type Item = Token;", "impl<'a> Tokenizer<'a> {")
        # T16: text -> number conversions
        s = rw.regex('T16', s, r'\.parse::<(i64|f64|u64|i128|u32|i32)>\(\)\s*\.ok\(\)', r'.verif_parse_\1()')
        s = t16_from_str(s, rw)
    if rel.endswith('/number.rs') and part == 'ast':
        # T22: the casts of Number::from(f64) (Verus gives int <-> float casts no meaning; helper bodies = the casts)
        s = rw.regex('T22', s, r'\b(\w+) as i64\b', r'verif_f64_to_i64(\1)')
        s = t22_cast_to_f64(s, rw)
        s = t8_f64_consts(s, rw)
    if rel.endswith('/ast.rs') and part == 'ast' and stack == 'number':
        # T12: the NaN test and the sort idiom on Vec<Number> (multi-line closures) -> helpers whose bodies are the originals
        s = rw.regex('T12', s, r'(\w+)\s*\.iter\(\)\s*\.any\(\|(\w+)\| matches!\(\2, Number::Float\((\w+)\) if \3\.is_nan\(\)\)\)', r'verif_any_nan(&\1)')
        s = t12_sort_closure(s, rw)
        # T14: the one integer division (exact quotient of two Integers): Verus specifies `/` on i64 for positive divisors only
        s = rw.literal('T14', s, 'Number::Integer(value_a / value_b)', 'Number::Integer(verif_idiv(value_a, value_b))', expect=1)
    if rel.endswith('/ast.rs') and part == 'ast':
        s = t24_step_counter(s, rw)
    if rel.endswith('/ast.rs') and part in ('core', 'ast'):
        # T12: the sort idiom -> helper with an assumed contract (body = the original expression)
        s = rw.regex('T12', s, r'(\w+)\.sort_by\(\|a, b\| a\.partial_cmp\(b\)\.unwrap\(\)\);', r'verif_sort(&mut \1);')
        s = rw.regex('T12', s, r'(\w+)\.sort\(\);', r'verif_sort(&mut \1);')
        # T14: IEEE division never panics, but vstd's f64 `/` carries a precondition; the one float
        # division of eval_i64 (`1.0 / n`) is outlined to a total helper whose body is the original operator
        if stack == 'i64':
            s = rw.regex('T14', s, r'\b1\.0 / (\w+)', r'verif_fdiv(1.0, \1)')
        if stack == 'complex':
            s = rw.literal('T3', s, 'use num_complex::Complex;', '')
        if stack == 'decimal' and part == 'ast':
            # T27 (as for eval_f64 / eval_number): gamma() is verified as gamma_impl, callers see the wrapper of the contract prelude
            s = rw.regex('T27', s, r'\bfn gamma\(a: Decimal\) -> Option<Decimal> \{', 'fn gamma_impl(a: Decimal) -> Option<Decimal> {', expect_min=1)
        if stack == 'decimal':
            # T8: associated constants;  T15: `x op= e;` -> `x = x op (e);` (Decimal is Copy; vstd has no *Assign specs)
            s = t8_decimal_consts(s, rw)
            s = t15_assign_ops(s, rw)
        if stack in ('f64', 'number') and part == 'ast':
            # T27: gamma() (plain f64 arithmetic, no loop) is verified under the name gamma_impl; callers see the wrapper `gamma` of the
            # contract prelude, whose body is the call and whose assumed contract says the result is a function of the argument
            s = rw.regex('T27', s, r'\bfn gamma\(a: f64\) -> f64 \{', 'fn gamma_impl(a: f64) -> f64 {', expect_min=1)
            # T20..T23: IEEE primitives Verus has no encoding for are outlined to helpers whose *bodies are the original
            # primitive* and whose contract is an uninterpreted function of the operands (f64_header.vinc)
            s = t20_float_neg(s, rw)
            s = t8_f64_consts(s, rw)
            if stack == 'f64':
                s = rw.regex('T22', s, r'\b(\w+) as usize\b', r'verif_to_usize(\1)')
            s = t22_cast_to_f64(s, rw)
            s = rw.regex('T12', s, r'(\w+)\.iter\(\)\.any\(\|(\w+)\| \2\.is_nan\(\)\)', r'verif_any_nan(&\1)')
            s = t15_assign_ops(s, rw, ops='-+*/')
        # T13: `for x in A..=(E) {` -> `for x in A..((E) + 1) {`  (no iterator spec for RangeInclusive in vstd;
        # equivalent whenever E + 1 does not overflow, which Verus then has to prove)
        s = rw.regex('T13', s, r'for (\w+) in (\w+)\.\.=\((.+?)\) \{', r'for \1 in \2..((\3) + 1) {')
    return s


def t16_from_str(s, rw):
    out = []
    i = 0
    n = 0
    for m in re.finditer(r'Decimal::from_str(?:_exact)?\(', s):
        if m.start() < i:
            continue
        close = rsrc.match_close(s, m.end() - 1)
        mm = re.match(r'\s*\.ok\(\)', s[close + 1:])
        if not mm:
            continue
        out.append(s[i:m.start()])
        out.append(('verif_parse_dec_exact(' if m.group(0).endswith('_exact(') else 'verif_parse_dec(') + s[m.end():close] + ')')
        i = close + 1 + mm.end()
        n += 1
    out.append(s[i:])
    rw.count('T16', n)
    return ''.join(out)


def t20_float_neg(s, rw):
    """T20.  Verus has no encoding of unary minus on floats: `-E` in prefix position, E not an integer literal, becomes
    `verif_fneg(E)` (helper body: `-x`).  E is the primary expression after the sign with its postfix chain
    (`.m(..)`, `?`, `[..]`, calls) - the operand Rust's grammar gives to a unary minus.  A minus that was in fact an
    integer negation makes the generated file ill-typed (exit 2), never a wrong proof."""
    mask = rsrc.code_mask(s)
    out = []
    i = 0
    n = 0
    for m in re.finditer(r'-', s):
        p = m.start()
        if p < i or not mask[p]:
            continue
        if s[p + 1:p + 2] in ('=', '>'):
            continue
        # prefix position: the previous code character is an opener / operator / separator, or the keyword `return`
        j = p - 1
        while j >= 0 and s[j] in ' \t\n':
            j -= 1
        if j >= 0 and not (s[j] in '(,=+-*/%<>!&|{;[' or s[:j + 1].endswith('return')):
            continue
        k = p + 1
        if k >= len(s) or s[k] in ' \t\n':
            continue
        # primary
        if s[k] == '(':
            e = rsrc.match_close(s, k) + 1
        else:
            mm = re.match(r'(\d[\d_]*(\.[\d_]+)?([eE][-+]?\d+)?(_?f64)?)|([A-Za-z_][\w:]*)', s[k:])
            if not mm:
                continue
            if mm.group(1) and not (mm.group(2) or mm.group(3) or mm.group(4)):
                continue                      # integer literal: a plain integer negation
            e = k + mm.end()
        # postfix chain
        while e < len(s):
            if s[e] == '?':
                e += 1
            elif s[e] in '([':
                e = rsrc.match_close(s, e) + 1
            elif s[e] == '.' and re.match(r'\.[A-Za-z_]', s[e:e + 2]):
                e += 1 + re.match(r'\w+', s[e + 1:]).end()
            else:
                break
        out.append(s[i:p])
        out.append('verif_fneg(' + s[k:e] + ')')
        i = e
        n += 1
    out.append(s[i:])
    rw.count('T20', n)
    return ''.join(out)


F64_CONSTS = (('f64::NEG_INFINITY', 'c_neg_inf()'), ('f64::INFINITY', 'c_inf()'), ('f64::NAN', 'c_nan()'),
              ('std::f64::consts::PI', 'c_f64_pi()'), ('std::f64::consts::E', 'c_f64_e()'), ('f64::EPSILON', 'c_f64_epsilon()'),
              ('f64::MIN_POSITIVE', 'c_f64_min_positive()'), ('f64::MAX', 'c_f64_max()'), ('f64::MIN', 'c_f64_min()'))


_INVENTORY = []


def _split_top(text):
    """split at top-level commas"""
    out, depth, cur = [], 0, []
    for ch in text:
        if ch in '([{<':
            depth += 1
        elif ch in ')]}>':
            depth -= 1
        if ch == ',' and depth == 0:
            out.append(''.join(cur))
            cur = []
        else:
            cur.append(ch)
    if ''.join(cur).strip():
        out.append(''.join(cur))
    return [x.strip() for x in out]


def _top_split(p, sep):
    """split p at occurrences of the single character sep at bracket depth 0 (code only)"""
    out, depth, last = [], 0, 0
    for kind, a, b in rsrc.tokens(p, 0, len(p)):
        if kind != 'c':
            continue
        c = p[a]
        if c in '([{':
            depth += 1
        elif c in ')]}':
            depth -= 1
        elif c == sep and depth == 0:
            out.append(p[last:a])
            last = a + 1
    out.append(p[last:])
    return out


def _top_guard(p):
    """index of the top-level ` if ` of an arm pattern, or -1"""
    depth = 0
    for kind, a, b in rsrc.tokens(p, 0, len(p)):
        if kind != 'c':
            continue
        c = p[a]
        if c in '([{':
            depth += 1
        elif c in ')]}':
            depth -= 1
        elif depth == 0 and c == 'i' and p.startswith('if', a) and (a == 0 or not (p[a - 1].isalnum() or p[a - 1] == '_')) \
                and (a + 2 >= len(p) or not (p[a + 2].isalnum() or p[a + 2] == '_')):
            return a
    return -1


def t29_split_or_guard(s, rw):
    """T29.  `A | B if g => e` becomes `A if g => e, B if g => e` (the installed Verus rejects an arm that has both a top-level or-pattern
    and a guard).  Rust defines the former as trying the alternatives in order, each with the guard, which is what the two arms do; the
    guard and the body are copied verbatim."""
    for _round in range(64):
        mask = rsrc.code_mask(s)
        edit = None
        for m in re.finditer(r'\bmatch\b', s):
            if not mask[m.start()]:
                continue
            got = rsrc.inner_match(s, m.start(), len(s))
            if not got or got[0] != m.start():
                continue
            try:
                arms = rsrc.match_arms(s, got[1], got[2])
            except Exception:
                continue
            for arm in arms:
                pat = arm['pat']
                g = _top_guard(pat)
                if g < 0:
                    continue
                alts = [a.strip() for a in _top_split(pat[:g], '|')]
                if alts and alts[0] == '':
                    alts = alts[1:]
                if len(alts) < 2 or any(a == '' for a in alts):
                    continue
                guard = pat[g:].strip()
                body = s[arm['body_start']:arm['body_end']]
                edit = (arm['pat_start'], arm['body_end'], ',\n'.join('%s %s => %s' % (a, guard, body) for a in alts), len(alts))
                break
            if edit:
                break
        if not edit:
            break
        s = s[:edit[0]] + edit[2] + s[edit[1]:]
        rw.count('T29', edit[3])
    return s


def t28_inline_helpers(s, unit, con, rw):
    """T28.  A private free function that a change introduced (not in the inventory of the pinned tree, no contract) is inlined at its call
    sites as a block `{ let p1: T1 = a1; ..; BODY }` and its definition dropped - what Rust's inliner may do, done textually, so that the
    caller is verified against the helper's *body* instead of an absent contract.  Only for the simple shape: no `self`, no generics, no
    `return`, not recursive, every parameter a plain `name: Type`; a body using `?` only where every call is itself followed by `?`.
    Anything else is left alone (a failing caller is then UNDECIDED, see verus_unit)."""
    if not _INVENTORY:
        try:
            _INVENTORY.append(json.load(open(os.path.join(VERIF, 'contracts', 'fn_inventory.json')))['units'])
        except Exception:
            _INVENTORY.append({})
    inv = _INVENTORY[0].get(unit)
    if inv is None:
        return s
    for _round in range(3):
        names = rsrc.fn_names(s)
        contracted = set(k[0] for k in con.fns)
        cands = [n for n in dict.fromkeys(names) if n not in inv and n not in contracted and names.count(n) == 1]
        changed = False
        for name in cands:
            try:
                a, bo, bc = rsrc.find_fn(s, name)
            except LostAnchor:
                continue
            sig = s[a:bo]
            m = re.match(r'fn\s+%s\s*\(' % re.escape(name), sig)
            if not m:
                continue                      # generics or something unusual between the name and `(`
            pclose = rsrc.match_close(s, a + m.end() - 1)
            params = _split_top(s[a + m.end():pclose])
            if any('self' in re.split(r':', p_)[0] for p_ in params):
                continue
            if not all(re.match(r'^(mut\s+)?[A-Za-z_][A-Za-z0-9_]*\s*:\s*\S', p_) for p_ in params):
                continue
            body = s[bo:bc + 1]
            mask = rsrc.code_mask(s)
            code_body = ''.join(ch if mask[bo + i] else ' ' for i, ch in enumerate(body))
            if re.search(r'\breturn\b', code_body) or re.search(r'\b%s\s*\(' % re.escape(name), code_body):
                continue
            uses_q = '?' in code_body
            # the definition, with the doc comments / attributes above it
            ds = s.rfind('\n', 0, a) + 1
            if s[ds:a].strip() not in ('', 'pub', 'pub(crate)', 'pub(super)'):
                continue
            while True:
                prev = s.rfind('\n', 0, ds - 1) + 1
                line = s[prev:ds].strip()
                if ds > 0 and (line.startswith('///') or line.startswith('#[') or line.startswith('//')):
                    ds = prev
                else:
                    break
            calls = [c for c in re.finditer(r'\b%s\s*\(' % re.escape(name), s) if mask[c.start()] and not (a <= c.start() <= bc)
                     and not re.search(r'\bfn\s+$', s[max(0, c.start() - 8):c.start()])]
            if not calls:
                continue
            edits = []
            ok = True
            for c in calls:
                close = rsrc.match_close(s, c.end() - 1)
                args = _split_top(s[c.end():close])
                if len(args) != len(params) or (c.start() > 0 and s[c.start() - 1] in '.:'):
                    ok = False
                    break
                if uses_q and not s[close + 1:].lstrip().startswith('?'):
                    ok = False
                    break
                lets = ' '.join('let %s = %s;' % (p_, a_) for p_, a_ in zip(params, args))
                edits.append((c.start(), close + 1, '{ %s %s }' % (lets, body)))
            if not ok:
                continue
            edits.append((ds, bc + 1, '// [extract] T28: fn %s inlined at its %d call site(s)\n' % (name, len(calls))))
            for st, en, txt in sorted(edits, reverse=True):
                s = s[:st] + txt + s[en:]
            rw.count('T28', len(calls))
            changed = True
            break                               # offsets moved: rescan
        if not changed:
            break
    return s


def t8_decimal_consts(s, rw):
    for name, fn in (('ZERO', 'dec_c_zero'), ('MAX', 'dec_c_max'), ('MIN', 'dec_c_min'), ('ONE_HUNDRED', 'dec_c_hundred'), ('ONE', 'dec_c_one'),
                     ('TWO', 'dec_c_two'), ('TEN', 'dec_c_ten'), ('NEGATIVE_ONE', 'dec_c_neg_one')):
        s = rw.regex('T8', s, r'\bDecimal::%s\b' % name, fn + '()')
    return s


def t8_f64_consts(s, rw):
    """T8: associated constants of f64 -> helpers with uninterpreted values (f64_prims.vinc)."""
    for name, fn in F64_CONSTS:
        s = rw.regex('T8', s, r'(?<![\w:])' + re.escape(name) + r'\b', fn)
    return s


PARSER_METHODS = ['parse', 'get_next_token', 'check_paren', 'generate_ast', 'function_static_arguments', 'function_arguments',
                  'find_item_list', 'parse_number', 'implicit_multiply', 'convert_token_to_node']


def t26_parser_steps(s, rw):
    """T26 (C02, ghost only).  Every Parser method that takes part in parsing gets a ghost step counter parameter
    `psteps: &mut Ghost<nat>`, every call `self.m(..)` passes it on, and every such method starts with
    `proof { *psteps = Ghost(psteps@ + 1); }`.  `Ghost<nat>` is erased by compilation; the executable text is unchanged.
    The contracts (parser_methods.vinc) bound the counter by 8 per consumed token: the parser's work is linear in the tokens."""
    names = list(PARSER_METHODS) + sorted(set(re.findall(r'\bfn (get_enclosed_elements_with_impl_mult_\d+)\b', s)))
    mask = rsrc.code_mask(s)
    edits = []           # (position, text)
    n = 0
    for name in names:
        # definition
        for m in re.finditer(r'\bfn ' + re.escape(name) + r'\s*\(', s):
            if not mask[m.start()]:
                continue
            close = rsrc.match_close(s, m.end() - 1)
            inner = s[m.end():close]
            if 'self' not in inner:
                continue
            edits.append((close, ('psteps: &mut Ghost<nat>' if inner.rstrip().endswith(',') else ', psteps: &mut Ghost<nat>')))
            # body start
            a, bo, bc = rsrc.find_fn(s, name)
            edits.append((bo + 1, '\n        proof { *psteps = Ghost(psteps@ + 1); }\n'))
            n += 1
        # calls
        for m in re.finditer(r'\bself\.' + re.escape(name) + r'\s*\(', s):
            if not mask[m.start()]:
                continue
            close = rsrc.match_close(s, m.end() - 1)
            inner = s[m.end():close]
            if inner.strip() == '':
                edits.append((close, 'psteps'))
            else:
                edits.append((close, ('psteps' if inner.rstrip().endswith(',') else ', psteps')))
            n += 1
    if n == 0:
        raise LostAnchor("T26: no Parser method found")
    for pos, text in sorted(edits, key=lambda e: -e[0]):
        s = s[:pos] + text + s[pos:]
    rw.count('T26', n)
    return s


def t25_keyword_tests(s, rw):
    """T25.  The two ways the tokenizers compare the look-ahead text with a keyword:
         verif_peek_str(&self.expr, N) == "LIT"                               ->  verif_peek_is(&self.expr, N, "LIT")
         match verif_peek_str(&self.expr, N).as_str() { "L1" => B1, .., _ => D }  ->  if verif_peek_is(.., N, "L1") { B1 } .. else { D }
    (string-literal patterns are tested in order and are pairwise distinct, so the if-chain is the match).  Each test is
    preceded by `reveal_strlit("LIT")` so that the characters of the literal *in the code* are what the proof sees.
    verif_peek_is is an external_body helper whose body is the original comparison (tok_prelude.vinc)."""
    n = 0
    # innermost-first: repeat until no `match verif_peek_str(..).as_str() {` is left
    while True:
        ms = list(re.finditer(r'match verif_peek_str\(&self\.expr, (\d+)\)\.as_str\(\) \{', s))
        if not ms:
            break
        m = ms[-1]                      # the last one in the text has no such match after it -> innermost or independent
        bo = m.end() - 1
        bc = rsrc.match_close(s, bo)
        arms = rsrc.match_arms(s, bo, bc)
        parts = []
        for k, arm in enumerate(arms):
            body = s[arm['body_start']:arm['body_end']].strip()
            if not body.startswith('{'):
                body = '{ ' + body + ' }'
            pat = arm['pat']
            if pat == '_':
                if k != len(arms) - 1:
                    raise LostAnchor("T25: `_` arm is not the last arm")
                parts.append('else ' + body)
            else:
                if not re.match(r'^"[^"\\]*"$', pat):
                    raise LostAnchor("T25: unexpected pattern %r in a keyword match" % pat)
                parts.append('%sif ({ proof { reveal_strlit(%s); } verif_peek_is(&self.expr, %s, %s) }) %s'
                             % ('else ' if k else '', pat, m.group(1), pat, body))
        if not arms or arms[-1]['pat'] != '_':
            raise LostAnchor("T25: keyword match without a `_` arm")
        s = s[:m.start()] + ' '.join(parts) + s[bc + 1:]
        n += 1
    s, k = re.subn(r'verif_peek_str\(&self\.expr, (\d+)\) == ("[^"\\]*")',
                   r'({ proof { reveal_strlit(\2); } verif_peek_is(&self.expr, \1, \2) })', s)
    rw.count('T25', n + k)
    return s


def t24_step_counter(s, rw):
    """T24 (C02, ghost only).  `eval` gets a ghost step counter: the signature becomes `eval(expr: Node, steps: &mut Ghost<nat>)`
    and every call `eval(E)` becomes `eval(E, steps)`.  `Ghost<nat>` is erased by compilation; the executable text is unchanged.
    The contract then bounds the counter by cost(expr) (gen/<stack>-cost.vinc): the number of eval calls is at most the number
    of nodes, so re-evaluating a subtree is a failed obligation."""
    mask = rsrc.code_mask(s)
    m = re.search(r'pub fn eval\(expr: Node\)', s)
    if not m:
        raise LostAnchor("T24: signature `pub fn eval(expr: Node)` not found")
    out = []
    i = 0
    n = 0
    for c in re.finditer(r'(?<![\w.])eval\(', s):
        if not mask[c.start()] or c.start() < i:
            continue
        if s[:c.start()].rstrip().endswith('fn'):
            continue
        close = rsrc.match_close(s, c.end() - 1)
        out.append(s[i:close])
        out.append(', steps')
        i = close
        n += 1
    out.append(s[i:])
    s = ''.join(out)
    s = s.replace('pub fn eval(expr: Node)', 'pub fn eval(expr: Node, steps: &mut Ghost<nat>)', 1)
    rw.count('T24', n + 1)
    return s


def t12_sort_closure(s, rw):
    """T12 (eval_number): `v.sort_by(|a, b| { <convert both to f64>; a.partial_cmp(&b).unwrap() });` -> `verif_sort(&mut v);`.
    Recognised by its head `IDENT.sort_by(|a, b| {` and its last expression `a.partial_cmp(&b).unwrap()`."""
    out = []
    i = 0
    n = 0
    for m in re.finditer(r'(\w+)\.sort_by\(\|a, b\| \{', s):
        if m.start() < i:
            continue
        bo = m.end() - 1
        bc = rsrc.match_close(s, bo)
        body = s[bo + 1:bc]
        tail = s[bc + 1:bc + 3]
        if not body.rstrip().endswith('a.partial_cmp(&b).unwrap()') or tail != ');':
            continue
        out.append(s[i:m.start()])
        out.append('verif_sort(&mut %s);' % m.group(1))
        i = bc + 3
        n += 1
    out.append(s[i:])
    rw.count('T12', n)
    return ''.join(out)


def t22_cast_to_f64(s, rw):
    """T22.  `E as f64` (E: the unary operand of the cast - a bracketed group, path or method chain) -> `verif_to_f64(E)`:
    Verus gives integer -> float casts no meaning.  The helper is generic over the source type (trait VerifToF64 in
    f64_header.vinc; each impl's body is `self as f64`)."""
    mask = rsrc.code_mask(s)
    out = []
    pos = 0
    n = 0
    for m in re.finditer(r' as f64\b', s):
        if not mask[m.start()] or m.start() < pos:
            continue
        e = m.start()
        b = e
        while b > pos:
            c = s[b - 1]
            if c in ')]':
                depth = 0
                j = b - 1
                while j >= pos:
                    if s[j] in ')]':
                        depth += 1
                    elif s[j] in '([':
                        depth -= 1
                        if depth == 0:
                            break
                    j -= 1
                if j < pos:
                    raise LostAnchor("T22: unbalanced cast operand")
                b = j
            elif c.isalnum() or c in '_:':
                b -= 1
            elif c == '.' and b - 2 >= 0 and (s[b - 2].isalnum() or s[b - 2] in '_)]'):
                b -= 1
            elif c == '?':
                b -= 1
            else:
                break
        if b == e:
            raise LostAnchor("T22: cast without operand")
        out.append(s[pos:b])
        out.append('verif_to_f64(' + s[b:e] + ')')
        pos = m.end()
        n += 1
    out.append(s[pos:])
    rw.count('T22', n)
    return ''.join(out)


def t15_assign_ops(s, rw, ops='-+*'):
    out = []
    i = 0
    n = 0
    for m in re.finditer(r'(?m)^(\s*)(\w+) ([' + ops + r'])= ', s):
        if m.start() < i:
            continue
        # the statement ends at the first `;` at bracket depth 0
        depth = 0
        end = None
        for kind, a, b in rsrc.tokens(s, m.end()):
            if kind != 'c':
                continue
            c = s[a]
            if c in '([{':
                depth += 1
            elif c in ')]}':
                depth -= 1
            elif c == ';' and depth == 0:
                end = a
                break
        if end is None:
            continue
        out.append(s[i:m.start()])
        out.append('%s%s = %s %s (%s);' % (m.group(1), m.group(2), m.group(2), m.group(3), s[m.end():end]))
        i = end + 1
        n += 1
    out.append(s[i:])
    rw.count('T15', n)
    return ''.join(out)


def t6_specialise(s, rw):
    """T6.  `get_enclosed_elements_with_impl_mult(prec, end, |expr| BODY)` has a `fn(Node) -> Node`
    parameter, which Verus rejects.  Each call site becomes a call to a copy of the function
    (`.._k`) in which `get_node(expr)` is replaced by the closure body of that call site and the
    parameter is dropped.  All copies are verified."""
    name = 'get_enclosed_elements_with_impl_mult'
    if name not in s:
        return s
    a, body_open, body_close = rsrc.find_fn(s, name)
    fn_text = s[a:body_close + 1]
    if 'get_node: fn(Node) -> Node,' not in fn_text or 'get_node(expr)' not in fn_text:
        raise LostAnchor("T6: shape of %s changed" % name)
    # call sites
    calls = []
    for m in re.finditer(r'self\.' + name + r'\(', s):
        close = rsrc.match_close(s, m.end() - 1)
        args = s[m.end():close]
        mm = re.search(r'\|(\w+)\|\s*(.+?),?\s*$', args, flags=re.S)
        if not mm:
            raise LostAnchor("T6: call site without closure argument")
        calls.append((m.start(), close, args[:mm.start()].rstrip().rstrip(','), mm.group(1), mm.group(2).strip().rstrip(',')))
    copies = []
    out = []
    pos = 0
    for k, (st, close, head, var, body) in enumerate(calls):
        out.append(s[pos:st])
        out.append('self.%s_%d(%s)' % (name, k, head.strip()))
        pos = close + 1
        cp = fn_text.replace('fn ' + name, 'fn %s_%d' % (name, k))
        cp = cp.replace('get_node: fn(Node) -> Node,', '')
        cp = cp.replace('get_node(expr)', '{ let %s = expr; %s }' % (var, body))
        copies.append(cp)
    out.append(s[pos:])
    s2 = ''.join(out)
    # replace the original definition by the copies
    a2, bo2, bc2 = rsrc.find_fn(s2, name)
    ls = s2.rfind('\n', 0, a2) + 1
    indent = s2[ls:a2]
    s2 = s2[:a2] + ('\n' + indent).join(copies) + s2[bc2 + 1:]
    rw.count('T6', len(calls))
    return s2


if __name__ == '__main__':
    try:
        feats = None
        args = sys.argv[1:]
        if len(args) > 3:
            feats = args[3].split(',')
        m = extract(args[0], args[1], args[2], feats)
        print(json.dumps(dict(rewrites=m['rewrites'], lost_hints=m['lost_hints'], functions=len(m['functions']))))
    except LostAnchor as e:
        print("UNDECIDED reason=lost-anchor %s" % e)
        sys.exit(2)
