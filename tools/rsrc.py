"""Minimal Rust source scanner used by the extractor.

It understands just enough lexical structure (comments, string / char literals,
lifetimes, bracket nesting) to locate items, function bodies, loops and match arms
in /repo's source text *without rewriting anything it does not have to*.  Everything
it returns is an offset range into the original text, so the extractor can splice
ghost text in and leave every other byte as it is in /repo.
"""
import re


class LostAnchor(Exception):
    """An expected syntactic anchor is not in the source any more (=> exit 2)."""


def _skip_string(s, i):
    # s[i] == '"'
    i += 1
    n = len(s)
    while i < n:
        c = s[i]
        if c == '\\':
            i += 2
            continue
        if c == '"':
            return i + 1
        i += 1
    raise LostAnchor("unterminated string literal")


def _skip_raw_string(s, i):
    # s[i] == 'r' followed by #*"
    j = i + 1
    hashes = 0
    while s[j] == '#':
        hashes += 1
        j += 1
    assert s[j] == '"'
    end = s.find('"' + '#' * hashes, j + 1)
    if end < 0:
        raise LostAnchor("unterminated raw string")
    return end + 1 + hashes


def _char_or_lifetime(s, i):
    # s[i] == "'"; returns index after the char literal, or i+1 for a lifetime
    n = len(s)
    if i + 1 < n and s[i + 1] == '\\':
        j = s.find("'", i + 2)
        # handle '\'' : the found quote may be the escaped one
        if j == i + 2:
            j = s.find("'", j + 1)
        return j + 1
    # 'x' (x may be multi-byte; python strings are code points)
    if i + 2 < n and s[i + 2] == "'":
        return i + 3
    return i + 1  # lifetime


def tokens(s, start=0, end=None):
    """Yield (kind, i, j) for code-relevant pieces: 'code' chars are yielded one by one
    as ('c', i, i+1); comments/strings/chars as ('skip', i, j)."""
    n = len(s) if end is None else end
    i = start
    while i < n:
        c = s[i]
        if c == '/' and i + 1 < n and s[i + 1] == '/':
            j = s.find('\n', i)
            j = n if j < 0 or j > n else j
            yield ('skip', i, j)
            i = j
        elif c == '/' and i + 1 < n and s[i + 1] == '*':
            depth = 1
            j = i + 2
            while j < n and depth:
                if s.startswith('/*', j):
                    depth += 1
                    j += 2
                elif s.startswith('*/', j):
                    depth -= 1
                    j += 2
                else:
                    j += 1
            yield ('skip', i, j)
            i = j
        elif c == '"':
            j = _skip_string(s, i)
            yield ('skip', i, j)
            i = j
        elif c == 'r' and i + 1 < n and s[i + 1] in '#"' and (i == 0 or not (s[i - 1].isalnum() or s[i - 1] == '_')) \
                and re.match(r'r#*"', s[i:i + 8]):
            j = _skip_raw_string(s, i)
            yield ('skip', i, j)
            i = j
        elif c == "'":
            j = _char_or_lifetime(s, i)
            yield ('skip', i, j)
            i = j
        else:
            yield ('c', i, i + 1)
            i += 1


OPEN = '([{'
CLOSE = ')]}'


def match_close(s, i):
    """s[i] is an opening bracket; return the index of its matching close."""
    assert s[i] in OPEN, (i, s[i:i + 20])
    depth = 0
    for kind, a, b in tokens(s, i):
        if kind != 'c':
            continue
        c = s[a]
        if c in OPEN:
            depth += 1
        elif c in CLOSE:
            depth -= 1
            if depth == 0:
                return a
    raise LostAnchor("unbalanced bracket at %d" % i)


_MASKS = {}


def code_mask(s):
    """bytearray: 1 where the character is code (not comment/string/char literal)."""
    k = (len(s), hash(s))
    if k in _MASKS and _MASKS[k][0] is s or (k in _MASKS and _MASKS[k][0] == s):
        return _MASKS[k][1]
    m = _code_mask(s)
    if len(_MASKS) > 64:
        _MASKS.clear()
    _MASKS[k] = (s, m)
    return m


def _code_mask(s):
    m = bytearray(len(s))
    for kind, a, b in tokens(s):
        if kind == 'c':
            m[a] = 1
    return m


def cut_tests(s):
    i = s.find('#[cfg(test)]')
    return s if i < 0 else s[:i]


def find_fn(s, name, nth=0):
    """Return (fn_kw_start, sig_end(=index of body '{'), body_close) of the nth `fn name`."""
    mask = code_mask(s)
    hits = [m for m in re.finditer(r'\bfn\s+' + re.escape(name) + r'\b', s) if mask[m.start()]]
    if len(hits) <= nth:
        raise LostAnchor("fn %s (occurrence %d) not found" % (name, nth))
    start = hits[nth].start()
    # the body brace: first '{' at bracket depth 0 after the name
    depth = 0
    for kind, a, b in tokens(s, hits[nth].end()):
        if kind != 'c':
            continue
        c = s[a]
        if c in '([':
            depth += 1
        elif c in ')]':
            depth -= 1
        elif c == '{' and depth == 0:
            return start, a, match_close(s, a)
        elif c == ';' and depth == 0:
            raise LostAnchor("fn %s has no body" % name)
    raise LostAnchor("fn %s body not found" % name)


def fn_names(s):
    mask = code_mask(s)
    return [m.group(1) for m in re.finditer(r'\bfn\s+([A-Za-z_][A-Za-z0-9_]*)', s) if mask[m.start()]]


def find_loops(s, lo, hi):
    """Loops (while / for / loop) whose keyword lies in s[lo:hi], in source order.
    Returns list of dicts: kw, kw_start, header_end (index of body '{'), body_close."""
    mask = code_mask(s)
    out = []
    for m in re.finditer(r'\b(while|for|loop)\b', s[lo:hi]):
        a = lo + m.start()
        if not mask[a]:
            continue
        kw = m.group(1)
        # `for` inside `impl<..> X for Y` or HRTB is not a loop: a loop-`for` is followed by a pattern and ` in `
        depth = 0
        body = None
        for kind, p, q in tokens(s, lo + m.end(), hi):
            if kind != 'c':
                continue
            c = s[p]
            if c in '([':
                depth += 1
            elif c in ')]':
                depth -= 1
            elif c == '{' and depth == 0:
                body = p
                break
            elif c == ';' and depth == 0:
                break
        if body is None:
            continue
        if kw == 'for' and not re.search(r'\bin\b', s[a:body]):
            continue
        out.append(dict(kw=kw, kw_start=a, header_end=body, body_close=match_close(s, body)))
    return out


def tail_match(s, body_open, body_close):
    """If the function body's tail expression is `match EXPR { .. }` return (match_kw, open, close)."""
    mask = code_mask(s)
    # the tail match ends right before body_close (modulo whitespace)
    j = body_close - 1
    while j > body_open and s[j].isspace():
        j -= 1
    if s[j] != '}':
        return None
    # find the `match` keyword at depth 1 of the body whose braces close at j
    depth = 0
    cand = None
    for kind, a, b in tokens(s, body_open, body_close + 1):
        if kind != 'c':
            continue
        c = s[a]
        if c in OPEN:
            depth += 1
        elif c in CLOSE:
            depth -= 1
        elif depth == 1 and s.startswith('match', a) and (not (s[a - 1].isalnum() or s[a - 1] == '_')) \
                and not (s[a + 5].isalnum() or s[a + 5] == '_'):
            # the scrutinee ends at the first '{' at depth 1
            d2 = 0
            for k2, p, q in tokens(s, a + 5, body_close):
                if k2 != 'c':
                    continue
                if s[p] in '([':
                    d2 += 1
                elif s[p] in ')]':
                    d2 -= 1
                elif s[p] == '{' and d2 == 0:
                    if match_close(s, p) == j:
                        cand = (a, p, j)
                    break
    return cand


def match_arms(s, mopen, mclose):
    """Arms of the match whose braces are s[mopen]..s[mclose].
    Returns list of dicts: pat (text), pat_start, arrow (index of '=>'), body_start, body_end
    (exclusive, without the trailing comma), is_block."""
    arms = []
    i = mopen + 1
    n = mclose
    while True:
        # skip whitespace / comments
        while i < n and (s[i].isspace()):
            i += 1
        if s.startswith('//', i):
            i = s.find('\n', i)
            continue
        if i >= n:
            break
        pat_start = i
        depth = 0
        arrow = None
        for kind, a, b in tokens(s, i, n):
            if kind != 'c':
                continue
            c = s[a]
            if c in OPEN:
                depth += 1
            elif c in CLOSE:
                depth -= 1
            elif c == '=' and s[a + 1] == '>' and depth == 0:
                arrow = a
                break
        if arrow is None:
            raise LostAnchor("match arm without => near %d" % i)
        pat = s[pat_start:arrow].strip()
        j = arrow + 2
        while s[j].isspace():
            j += 1
        if s[j] == '{':
            e = match_close(s, j) + 1
            is_block = True
            k = e
            while k < n and s[k].isspace():
                k += 1
            nxt = k + 1 if k < n and s[k] == ',' else e
            # a block followed by a method call / operator is an expression arm; not used in /repo
        else:
            is_block = False
            depth = 0
            e = None
            for kind, a, b in tokens(s, j, n):
                if kind != 'c':
                    continue
                c = s[a]
                if c in OPEN:
                    depth += 1
                elif c in CLOSE:
                    depth -= 1
                elif c == ',' and depth == 0:
                    e = a
                    break
            if e is None:
                e = n
                while s[e - 1].isspace():
                    e -= 1
                nxt = n
            else:
                nxt = e + 1
        arms.append(dict(pat=pat, pat_start=pat_start, arrow=arrow, body_start=j, body_end=e, is_block=is_block))
        i = nxt
    return arms


def line_of(s, off):
    return s.count('\n', 0, off) + 1


def inner_match(s, lo, hi):
    """First `match` keyword in s[lo:hi] (code, not comment/string) -> (kw, open, close) or None."""
    mask = code_mask(s)
    for m in re.finditer(r'\bmatch\b', s[lo:hi]):
        a = lo + m.start()
        if not mask[a]:
            continue
        d2 = 0
        for k2, p, q in tokens(s, a + 5, hi):
            if k2 != 'c':
                continue
            if s[p] in '([':
                d2 += 1
            elif s[p] in ')]':
                d2 -= 1
            elif s[p] == '{' and d2 == 0:
                return a, p, match_close(s, p)
        return None
    return None
