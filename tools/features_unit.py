"""C17: per-feature-subset obligations.

For a subset S of {eval_decimal, eval_f64, eval_i64, eval_complex, eval_number}:
  B:c17/<tag>/exports     the crate builds with exactly S and exports exactly the selected eval_* (+ Number, ParseError):
                          a generated probe program names every selected item (fails to compile if one is missing) and calls a
                          same-named local function through a second glob import for every non-selected item (ambiguous, hence a
                          compile error, if the crate exports it)
  S:c17/cfg-frame         `cfg(` occurs only in src/lib.rs and src/utils/operator_category.rs (so nothing else can differ)
The cfg-dependent *proof* obligations (category order under S by Kani, generate_ast / get_oper_prec of every enabled
stack by Verus with the cfg resolved for S) are scheduled by the driver through the ordinary units.
"""
import hashlib
import json
import os
import re
import shutil
import subprocess
import time

VERIF = os.path.dirname(os.path.dirname(os.path.abspath(__file__)))
ALL = ['eval_decimal', 'eval_f64', 'eval_i64', 'eval_complex', 'eval_number']
EXPORT = {'eval_decimal': ['eval_decimal'], 'eval_f64': ['eval_f64'], 'eval_i64': ['eval_i64'],
          'eval_complex': ['eval_complex'], 'eval_number': ['eval_number', 'Number']}


def tag_of(subset):
    return '+'.join(f.replace('eval_', '') for f in ALL if f in subset)


def all_subsets():
    out = []
    for m in range(1, 32):
        out.append([f for i, f in enumerate(ALL) if m >> i & 1])
    return out


def probe_source(subset):
    lines = ['#![allow(unused_imports, dead_code, ambiguous_glob_reexports)]', 'use string_calculator::ParseError;']
    own = []
    calls = []
    for f in ALL:
        for item in EXPORT[f]:
            if f in subset:
                lines.append('use string_calculator::%s as _present_%s;' % (item, item.lower()))
            else:
                if item == 'Number':
                    own.append('    pub struct Number;')
                    calls.append('    let _ = Number;')
                else:
                    own.append('    pub fn %s() {}' % item)
                    calls.append('    %s();' % item)
    lines.append('mod own {')
    lines += own
    lines.append('}')
    lines.append('mod absent {')
    lines.append('    use string_calculator::*;')
    lines.append('    use super::own::*;')
    lines.append('    pub fn check() {')
    lines += ['    ' + c for c in calls]
    lines.append('    }')
    lines.append('}')
    lines.append('fn main() { absent::check(); }')
    return '\n'.join(lines) + '\n'


def cfg_frame(repo):
    hits = []
    for root, _, files in os.walk(os.path.join(repo, 'src')):
        for fn in files:
            p = os.path.join(root, fn)
            rel = os.path.relpath(p, repo)
            for i, ln in enumerate(open(p, encoding='utf-8').read().split('\n')):
                if re.search(r'cfg\s*\(|cfg_attr|cfg!', ln) and 'cfg(test)' not in ln:
                    hits.append((rel, i + 1, ln.strip()))
    bad = [h for h in hits if h[0] not in ('src/lib.rs', 'src/utils/operator_category.rs')]
    return hits, bad


def run_exports(subset, repo, scratch):
    """-> dict(name, ok, output)"""
    tag = tag_of(subset)
    d = os.path.join(scratch, 'c17_' + tag.replace('+', '_'))
    if os.path.exists(d):
        shutil.rmtree(d)
    os.makedirs(os.path.join(d, 'crate'))
    for f in ('Cargo.toml', 'Cargo.lock'):
        if os.path.exists(os.path.join(repo, f)):
            shutil.copy(os.path.join(repo, f), os.path.join(d, 'crate', f))
    shutil.copytree(os.path.join(repo, 'src'), os.path.join(d, 'crate', 'src'))
    os.makedirs(os.path.join(d, 'probe', 'src'))
    with open(os.path.join(d, 'probe', 'Cargo.toml'), 'w') as fh:
        fh.write('[package]\nname = "c17probe"\nversion = "0.0.0"\nedition = "2021"\n[workspace]\n[dependencies]\n'
                 'string_calculator = { path = "../crate", default-features = false, features = [%s] }\n'
                 % ', '.join('"%s"' % f for f in subset))
    src = probe_source(subset)
    with open(os.path.join(d, 'probe', 'src', 'main.rs'), 'w') as fh:
        fh.write(src)
    key = hashlib.sha256()
    for root, _, files in os.walk(os.path.join(d, 'crate')):
        for fn in sorted(files):
            key.update(open(os.path.join(root, fn), 'rb').read())
    key.update(src.encode())
    key.update(tag.encode())
    cfile = os.path.join(VERIF, 'build', 'cache', 'c17-' + key.hexdigest() + '.json')
    if os.environ.get('VERIF_NO_CACHE') != '1' and os.path.exists(cfile):
        r = json.load(open(cfile))
        r['from_cache'] = True
        shutil.rmtree(d, ignore_errors=True)
        return r
    t0 = time.time()
    env = dict(os.environ, CARGO_NET_OFFLINE='true', CARGO_TARGET_DIR=os.path.join(d, 'target'))
    p = subprocess.run(['cargo', 'build', '--offline', '-q'], cwd=os.path.join(d, 'probe'), capture_output=True, text=True, env=env)
    # the crate's own tests under this subset are not run here (the baseline suite is all-features)
    r = dict(tag=tag, ok=p.returncode == 0, output=(p.stderr or '')[-1500:], wall_s=round(time.time() - t0, 1), from_cache=False)
    try:
        os.makedirs(os.path.dirname(cfile), exist_ok=True)
        json.dump(r, open(cfile + '.tmp%d' % os.getpid(), 'w'))
        os.replace(cfile + '.tmp%d' % os.getpid(), cfile)
    except Exception:
        pass
    shutil.rmtree(d, ignore_errors=True)
    return r
