#!/usr/bin/env python3
"""MANIFEST.setup_cmd: offline sanity of the tool chain, regeneration of the generated contract files."""
import os
import shutil
import subprocess
import sys

VERIF = os.path.dirname(os.path.dirname(os.path.abspath(__file__)))
ok = True
for tool in ('verus', 'cargo', 'python3'):
    if not shutil.which(tool):
        print('missing tool:', tool)
        ok = False
subprocess.check_call([sys.executable, os.path.join(VERIF, 'tools', 'gen_parser_spec.py')])
os.makedirs(os.path.join(VERIF, 'evidence'), exist_ok=True)
os.makedirs(os.path.join(VERIF, 'build', 'cache'), exist_ok=True)
r = subprocess.run(['verus', '--version'], capture_output=True, text=True)
print(r.stdout.strip().split('\n')[0] if r.stdout else r.stderr[:200])
sys.exit(0 if ok else 1)
