use vstd::prelude::*;
verus! {

#[derive(PartialEq, Eq, Structural, Clone, Copy)]
pub enum Cat { DefaultZero, Additive, Multiplicative, Power, Negative, Functional }

pub open spec fn rank(c: Cat) -> int {
    match c { Cat::DefaultZero => 0, Cat::Additive => 1, Cat::Multiplicative => 2, Cat::Power => 3, Cat::Negative => 4, Cat::Functional => 5 }
}
#[verifier::external_body]
pub fn cat_lt(a: &Cat, b: &Cat) -> (r: bool) ensures r == (rank(*a) < rank(*b)) { unimplemented!() }

pub enum Token { Add, Multiply, Subtract, LeftParen, RightParen, Num(i64), Eof }

impl Token {
    pub open spec fn sp_prec(self) -> Cat {
        match self { Token::Add | Token::Subtract => Cat::Additive, Token::Multiply => Cat::Multiplicative, _ => Cat::DefaultZero }
    }
    pub fn get_oper_prec(&self) -> (r: Cat) ensures r == self.sp_prec() {
        match *self { Token::Add | Token::Subtract => Cat::Additive, Token::Multiply => Cat::Multiplicative, _ => Cat::DefaultZero }
    }
    #[verifier::external_body]
    pub fn eq(&self, o: &Token) -> (r: bool) ensures r == (*self == *o) { unimplemented!() }
    #[verifier::external_body]
    pub fn clone(&self) -> (r: Token) ensures r == *self { unimplemented!() }
}

pub enum Node { Add(Box<Node>, Box<Node>), Subtract(Box<Node>, Box<Node>), Multiply(Box<Node>, Box<Node>), Negative(Box<Node>), Number(i64) }
impl Node {
    #[verifier::external_body]
    pub fn clone(&self) -> (r: Node) ensures r == *self { unimplemented!() }
}
pub struct ParseError { pub k: u8 }

// ---- abstract tokenizer
pub struct Tokenizer { pub g: Ghost<Seq<Option<Token>>> }
pub open spec fn at(s: Seq<Option<Token>>, i: int) -> Option<Token> { if 0 <= i < s.len() { s[i] } else { Some(Token::Eof) } }
pub open spec fn tail(s: Seq<Option<Token>>) -> Seq<Option<Token>> { if s.len() > 1 { s.subrange(1, s.len() as int) } else { s } }
impl Tokenizer {
    pub closed spec fn rest(&self) -> Seq<Option<Token>> { self.g@ }
    #[verifier::external_body]
    pub fn next(&mut self) -> (r: Option<Token>)
        ensures r == at(old(self).rest(), 0), final(self).rest() == tail(old(self).rest())
    { unimplemented!() }
}

// ---- spec parser (table driven)
pub type Stream = Seq<Option<Token>>;   // stream[0] = current token
pub open spec fn well_rest(s: Stream) -> bool { s.len() >= 1 && s[s.len() - 1] == Some(Token::Eof) && (forall|i: int| 0 <= i < s.len() - 1 ==> s[i] != Some(Token::Eof)) }
pub open spec fn cur(s: Stream) -> Token { match at(s, 0) { Some(t) => t, None => Token::Eof } }
pub open spec fn adv(s: Stream) -> Option<Stream> {
    if s.len() >= 2 { match s[1] { Some(_) => Some(tail(s)), None => None } } else { Some(s) }
}
pub open spec fn well(s: Stream) -> bool { s.len() >= 1 && s[0].is_some() && s[s.len() - 1] == Some(Token::Eof) && (forall|i: int| 0 <= i < s.len() - 1 ==> s[i] != Some(Token::Eof)) }

pub open spec fn sp_number(s: Stream) -> Option<(Node, Stream)>
    decreases s.len(), 1int
{
    if !well(s) { None } else {
    match cur(s) {
        Token::Num(i) => match adv(s) { Some(s1) => Some((Node::Number(i), s1)), None => None },
        Token::Subtract => match adv(s) { Some(s1) => match sp_gen(s1, Cat::Negative) { Some((e, s2)) => Some((Node::Negative(Box::new(e)), s2)), None => None }, None => None },
        Token::LeftParen => match adv(s) { Some(s1) => match sp_gen(s1, Cat::DefaultZero) {
            Some((e, s2)) => if cur(s2) == Token::RightParen { match adv(s2) { Some(s3) => Some((e, s3)), None => None } } else { None },
            None => None }, None => None },
        _ => None,
    }}
}
pub open spec fn sp_gen(s: Stream, p: Cat) -> Option<(Node, Stream)>
    decreases s.len(), 3int
{
    if !well(s) { None } else {
    match sp_number(s) { Some((left, s1)) => if s1.len() <= s.len() { sp_climb(s1, p, left) } else { None }, None => None }
    }
}
pub open spec fn sp_climb(s: Stream, p: Cat, left: Node) -> Option<(Node, Stream)>
    decreases s.len(), 2int
{
    if !well(s) { None }
    else if rank(p) < rank(cur(s).sp_prec()) && cur(s) != Token::Eof {
        match sp_convert(s, left) { Some((l2, s2)) => if s2.len() < s.len() { sp_climb(s2, p, l2) } else { None }, None => None }
    } else { Some((left, s)) }
}
pub open spec fn sp_convert(s: Stream, left: Node) -> Option<(Node, Stream)>
    decreases s.len(), 1int
{
    if !well(s) { None } else {
    match cur(s) {
        Token::Add => match adv(s) { Some(s1) => match sp_gen(s1, Cat::Additive) { Some((r, s2)) => Some((Node::Add(Box::new(left), Box::new(r)), s2)), None => None }, None => None },
        Token::Subtract => match adv(s) { Some(s1) => match sp_gen(s1, Cat::Additive) { Some((r, s2)) => Some((Node::Subtract(Box::new(left), Box::new(r)), s2)), None => None }, None => None },
        Token::Multiply => match adv(s) { Some(s1) => match sp_gen(s1, Cat::Multiplicative) { Some((r, s2)) => Some((Node::Multiply(Box::new(left), Box::new(r)), s2)), None => None }, None => None },
        _ => None,
    }}
}

// ---- the parser: bodies copied from /repo/src/eval_i64/parser.rs (arms trimmed to this token subset)
pub struct Parser { pub tokenizer: Tokenizer, pub current_token: Token, pub placeholder: i64 }
impl Parser {
    pub open spec fn stream(&self) -> Stream { if self.current_token == Token::Eof { self.tokenizer.rest() } else { seq![Some(self.current_token)] + self.tokenizer.rest() } }
    pub open spec fn inv(&self) -> bool { well(self.stream()) && well_rest(self.tokenizer.rest()) && (self.current_token == Token::Eof ==> self.tokenizer.rest().len() == 1) }

    fn get_next_token(&mut self) -> (res: Result<(), ParseError>)
        requires old(self).inv(),
        ensures match res { Ok(_) => adv(old(self).stream()) == Some(final(self).stream()) && final(self).inv(), Err(_) => adv(old(self).stream()).is_none() },
                final(self).placeholder == old(self).placeholder,
    {
        let next_token = match self.tokenizer.next() {
            Some(token) => token,
            None => return Err(ParseError { k: 0 }),
        };
        self.current_token = next_token;
        Ok(())
    }
    fn generate_ast(&mut self, oper_prec: Cat) -> (res: Result<Node, ParseError>)
        requires old(self).inv(),
        ensures match res { Ok(n) => sp_gen(old(self).stream(), oper_prec) == Some((n, final(self).stream())) && final(self).inv() && final(self).stream().len() <= old(self).stream().len(), Err(_) => sp_gen(old(self).stream(), oper_prec).is_none() },
        decreases old(self).stream().len(), 3int
    {
        let mut left_expr = self.parse_number()?;
        while cat_lt(&oper_prec, &self.current_token.get_oper_prec())
            invariant
                self.inv(),
                self.stream().len() <= old(self).stream().len(),
                sp_gen(old(self).stream(), oper_prec) == sp_climb(self.stream(), oper_prec, left_expr),
            ensures
                self.inv(),
                self.stream().len() <= old(self).stream().len(),
                sp_gen(old(self).stream(), oper_prec) == Some((left_expr, self.stream())),
            decreases self.stream().len()
        {
            if self.current_token.eq(&Token::Eof) {
                break;
            }
            let right_expr = self.convert_token_to_node(left_expr.clone())?;
            left_expr = right_expr;
        }
        Ok(left_expr)
    }
    fn parse_number(&mut self) -> (res: Result<Node, ParseError>)
        requires old(self).inv(),
        ensures match res { Ok(n) => sp_number(old(self).stream()) == Some((n, final(self).stream())) && final(self).inv() && final(self).stream().len() <= old(self).stream().len(), Err(_) => sp_number(old(self).stream()).is_none() },
        decreases old(self).stream().len(), 1int
    {
        let token = self.current_token.clone();
        match token {
            Token::Subtract => {
                self.get_next_token()?;
                let expr = self.generate_ast(Cat::Negative)?;
                Ok(Node::Negative(Box::new(expr)))
            }
            Token::Num(i) => {
                self.get_next_token()?;
                Ok(Node::Number(i))
            }
            Token::LeftParen => {
                self.get_next_token()?;
                let expr = self.generate_ast(Cat::DefaultZero)?;
                self.check_paren(Token::RightParen)?;
                Ok(expr)
            }
            _ => Err(ParseError { k: 1 }),
        }
    }
    fn check_paren(&mut self, expected: Token) -> (res: Result<(), ParseError>)
        requires old(self).inv(),
        ensures match res { Ok(_) => cur(old(self).stream()) == expected && adv(old(self).stream()) == Some(final(self).stream()) && final(self).inv(),
                            Err(_) => cur(old(self).stream()) != expected || adv(old(self).stream()).is_none() },
    {
        if expected.eq(&self.current_token) {
            self.get_next_token()?;
            Ok(())
        } else {
            Err(ParseError { k: 2 })
        }
    }
    fn convert_token_to_node(&mut self, left_expr: Node) -> (res: Result<Node, ParseError>)
        requires old(self).inv(), cur(old(self).stream()) != Token::Eof,
        ensures match res { Ok(n) => sp_convert(old(self).stream(), left_expr) == Some((n, final(self).stream())) && final(self).inv() && final(self).stream().len() < old(self).stream().len(), Err(_) => sp_convert(old(self).stream(), left_expr).is_none() },
        decreases old(self).stream().len(), 1int
    {
        match self.current_token {
            Token::Add => {
                self.get_next_token()?;
                let right_expr = self.generate_ast(Cat::Additive)?;
                Ok(Node::Add(Box::new(left_expr), Box::new(right_expr)))
            }
            Token::Subtract => {
                self.get_next_token()?;
                let right_expr = self.generate_ast(Cat::Additive)?;
                Ok(Node::Subtract(Box::new(left_expr), Box::new(right_expr)))
            }
            Token::Multiply => {
                self.get_next_token()?;
                let right_expr = self.generate_ast(Cat::Multiplicative)?;
                Ok(Node::Multiply(Box::new(left_expr), Box::new(right_expr)))
            }
            _ => Err(ParseError { k: 3 }),
        }
    }
}
} // verus!
fn main(){}
