use vstd::prelude::*;
use std::sync::Arc;
verus! {
impl Clone for Node {
    #[verifier::external_body]
    fn clone(&self) -> (r: Self) ensures r == *self { unimplemented!() }
}
pub struct Tokenizer<'a> { pub x: &'a str }
impl<'a> Tokenizer<'a> {
    #[verifier::external_body]
    pub fn new(new_expr: &'a str) -> Self { Tokenizer { x: new_expr } }
    #[verifier::external_body]
    pub fn next(&mut self) -> Option<Token> { None }
}
#[derive(Debug, PartialEq, PartialOrd, Clone)]
pub enum OperatorCategory {
    DefaultZero,
        BitwiseOr,
        BitwiseAnd,
        Shift,
    Additive,
    Multiplicative,
    Power,
    Negative,
    Functional,
}

#[derive(Debug)]
pub enum ParseError {
    UnableToParse(String),
    InvalidOperator(String),
}


#[derive(Debug, PartialEq, Clone)]
pub enum NativeFunction {
    Gcd,
    Lcm,
    Ln,
    Lb,
    Log,
    Pow,
    Sqrt,
    Root,
    Exp,
    Exp2,
    Abs,
    Mod,
    Sign,
    Min,
    Max,
    Avg,
    Med,
}

#[derive(Debug, PartialEq, Clone)]
pub enum Token {
    Ampersand,
    Bar,
    LeftShift,
    RightShift,
    Add,
    Subtract,
    Multiply,
    Divide,
    Caret,
    ExclamationMark,
    Modulo,
    LeftParen,
    RightParen,
    Comma,
    ExplicitFunction(NativeFunction),
    Superscript(i64),
    Num(i64),
    Ans,
    Eof,
}

impl Token {
    pub fn get_oper_prec(&self) -> OperatorCategory {
        use self::Token::*;
        match *self {
            Bar => OperatorCategory::BitwiseOr,
            Ampersand => OperatorCategory::BitwiseAnd,
            LeftShift | RightShift => OperatorCategory::Shift,
            Add | Subtract => OperatorCategory::Additive,
            Multiply | Divide | Modulo => OperatorCategory::Multiplicative,
            Caret | Superscript(_) => OperatorCategory::Power,
            ExclamationMark | ExplicitFunction(_) => OperatorCategory::Functional,
            _ => OperatorCategory::DefaultZero,
        }
    }
}

pub enum Node {
    And(Box<Node>, Box<Node>),
    Or(Box<Node>, Box<Node>),
    LeftShift(Box<Node>, Box<Node>),
    RightShift(Box<Node>, Box<Node>),
    Add(Box<Node>, Box<Node>),
    Subtract(Box<Node>, Box<Node>),
    Multiply(Box<Node>, Box<Node>),
    Divide(Box<Node>, Box<Node>),
    Modulo(Box<Node>, Box<Node>),
    Pow(Box<Node>, Box<Node>),
    Root(Box<Node>, Box<Node>),
    Log(Box<Node>, Box<Node>),
    Negative(Box<Node>),
    Factorial(Box<Node>),
    Abs(Box<Node>),
    Sqrt(Box<Node>),
    Ln(Box<Node>),
    Lb(Box<Node>),
    Exp(Box<Node>),
    Exp2(Box<Node>),
    Sign(Box<Node>),
    Min(Arc<Vec<Node>>),
    Max(Arc<Vec<Node>>),
    Avg(Arc<Vec<Node>>),
    Med(Arc<Vec<Node>>),
    Gcd(Arc<Vec<Node>>),
    Lcm(Arc<Vec<Node>>),
    Number(i64),
}



pub struct Parser<'a> {
    tokenizer: Tokenizer<'a>,
    current_token: Token,
    previous_token: Option<Token>,
    placeholder: i64,
}
impl<'a> Parser<'a> {
    #[verifier::exec_allows_no_decreases_clause]
    pub fn new(expr: &'a str, placeholder: Option<i64>) -> Result<Self, ParseError> {
        let mut lexer = Tokenizer::new(expr);
        let cur_token = match lexer.next() {
            Some(token) => token,
            None => return Err(ParseError::InvalidOperator("Invalid character".into())),
        };
        Ok(Parser {
            tokenizer: lexer,
            current_token: cur_token,
            previous_token: None,
            placeholder: placeholder.unwrap_or_default(),
        })
    }
    #[verifier::exec_allows_no_decreases_clause]
    pub fn parse(&mut self) -> Result<Node, ParseError> {
        let ast = self.generate_ast(OperatorCategory::DefaultZero);
        match ast {
            Ok(ast) => Ok(ast),
            Err(e) => Err(e),
        }
    }
    #[verifier::exec_allows_no_decreases_clause]
    fn get_next_token(&mut self) -> Result<(), ParseError> {
        let next_token = match self.tokenizer.next() {
            Some(token) => token,
            None => return Err(ParseError::InvalidOperator("Invalid character".into())),
        };
        self.previous_token = Some(self.current_token.clone());
        self.current_token = next_token;
        Ok(())
    }
    #[verifier::exec_allows_no_decreases_clause]
    fn generate_ast(&mut self, oper_prec: OperatorCategory) -> Result<Node, ParseError> {
        let mut left_expr = self.parse_number()?;

        while oper_prec < self.current_token.get_oper_prec() {
            if self.current_token == Token::Eof {
                break;
            }
            let right_expr = self.convert_token_to_node(left_expr.clone())?;
            left_expr = right_expr;
        }
        Ok(left_expr)
    }
    #[verifier::exec_allows_no_decreases_clause]
    fn function_static_arguments(&mut self, n: i32) -> Result<Vec<Node>, ParseError> {
        self.get_next_token()?;
        self.check_paren(Token::LeftParen)?;
        let mut args = Vec::new();
        for i in 0..n {
            let arg_expr = self.generate_ast(OperatorCategory::DefaultZero)?;
            args.push(arg_expr);
            if i < n - 1 {
                self.check_paren(Token::Comma)?;
            }
        }
        self.check_paren(Token::RightParen)?;
        Ok(args)
    }
    #[verifier::exec_allows_no_decreases_clause]
    fn function_arguments(&mut self) -> Result<Vec<Node>, ParseError> {
        self.find_item_list(
            Token::LeftParen,
            Token::RightParen,
            OperatorCategory::DefaultZero,
        )
    }
    #[verifier::exec_allows_no_decreases_clause]
    fn find_item_list(
        &mut self,
        start_token: Token,
        end_token: Token,
        oper_prec: OperatorCategory,
    ) -> Result<Vec<Node>, ParseError> {
        self.get_next_token()?;
        self.check_paren(start_token)?;
        let mut args = Vec::new();
        loop {
            if args.is_empty() && (end_token == self.current_token) {
                self.get_next_token()?;
                break;
            }
            let arg_expr = self.generate_ast(oper_prec.clone())?;
            args.push(arg_expr);
            if Token::Comma == self.current_token {
                self.get_next_token()?;
            } else if end_token == self.current_token {
                self.get_next_token()?;
                break;
            } else {
                return Err(ParseError::InvalidOperator(format!(
                    "Expected either {:?} or {:?}, got {:?}",
                    Token::Comma,
                    end_token,
                    self.current_token
                )));
            }
        }
        Ok(args)
    }
    #[verifier::exec_allows_no_decreases_clause]
    fn parse_number(&mut self) -> Result<Node, ParseError> {
        let token = self.current_token.clone();
        match token {
            Token::Ans => {
                self.get_next_token()?;
                Ok(Node::Number(self.placeholder))
            }
            Token::ExplicitFunction(current_function) => {
                let current_function = match current_function {
                    NativeFunction::Abs => {
                        Node::Abs(Box::new(self.function_static_arguments(1)?[0].clone()))
                    }
                    NativeFunction::Sqrt => {
                        Node::Sqrt(Box::new(self.function_static_arguments(1)?[0].clone()))
                    }
                    NativeFunction::Root => {
                        let args = self.function_static_arguments(2)?;
                        Node::Root(Box::new(args[0].clone()), Box::new(args[1].clone()))
                    }
                    NativeFunction::Exp => {
                        Node::Exp(Box::new(self.function_static_arguments(1)?[0].clone()))
                    }
                    NativeFunction::Exp2 => {
                        Node::Exp2(Box::new(self.function_static_arguments(1)?[0].clone()))
                    }
                    NativeFunction::Ln => {
                        Node::Ln(Box::new(self.function_static_arguments(1)?[0].clone()))
                    }
                    NativeFunction::Lb => {
                        Node::Lb(Box::new(self.function_static_arguments(1)?[0].clone()))
                    }
                    NativeFunction::Sign => {
                        Node::Sign(Box::new(self.function_static_arguments(1)?[0].clone()))
                    }
                    NativeFunction::Pow => {
                        let args = self.function_static_arguments(2)?;
                        Node::Pow(Box::new(args[0].clone()), Box::new(args[1].clone()))
                    }
                    NativeFunction::Log => {
                        let args = self.function_static_arguments(2)?;
                        Node::Log(Box::new(args[0].clone()), Box::new(args[1].clone()))
                    }
                    NativeFunction::Mod => {
                        let args = self.function_static_arguments(2)?;
                        Node::Modulo(Box::new(args[0].clone()), Box::new(args[1].clone()))
                    }
                    NativeFunction::Gcd => {
                        let args = self.function_arguments()?;
                        if args.is_empty() {
                            return Err(ParseError::UnableToParse(
                                "There's no arguments in the gcd function".to_string(),
                            ));
                        }
                        Node::Gcd(Arc::new(args))
                    }
                    NativeFunction::Lcm => {
                        let args = self.function_arguments()?;
                        if args.is_empty() {
                            return Err(ParseError::UnableToParse(
                                "There's no arguments in the gcd function".to_string(),
                            ));
                        }
                        Node::Lcm(Arc::new(args))
                    }
                    NativeFunction::Min => {
                        let args = self.function_arguments()?;
                        if args.is_empty() {
                            return Err(ParseError::UnableToParse(
                                "There's no arguments in the min function".to_string(),
                            ));
                        }
                        Node::Min(Arc::new(args))
                    }
                    NativeFunction::Max => {
                        let args = self.function_arguments()?;
                        if args.is_empty() {
                            return Err(ParseError::UnableToParse(
                                "There's no arguments in the max function".to_string(),
                            ));
                        }
                        Node::Max(Arc::new(args))
                    }
                    NativeFunction::Avg => {
                        let args = self.function_arguments()?;
                        if args.is_empty() {
                            Node::Number(0)
                        } else {
                            Node::Avg(Arc::new(args))
                        }
                    }
                    NativeFunction::Med => {
                        let args = self.function_arguments()?;
                        if args.is_empty() {
                            return Err(ParseError::UnableToParse(
                                "Cannot compute the median of no arguments".to_string(),
                            ));
                        } else {
                            Node::Med(Arc::new(args))
                        }
                    }
                };
                self.implicit_multiply(current_function)
            }
            Token::Subtract => {
                self.get_next_token()?;
                let expr = self.generate_ast(OperatorCategory::Negative)?;
                Ok(Node::Negative(Box::new(expr)))
            }
            Token::Add => {
                self.get_next_token()?;
                let expr = self.generate_ast(OperatorCategory::Negative)?;
                Ok(expr)
            }
            Token::Num(i) => {
                self.get_next_token()?;
                self.implicit_multiply(Node::Number(i))
            }
            Token::LeftParen => self.get_enclosed_elements_with_impl_mult(
                OperatorCategory::DefaultZero,
                Token::RightParen,
            ),
            _ => Err(ParseError::UnableToParse(
                "Unknown parsing token for parsing number".to_string(),
            )),
        }
    }
    #[verifier::exec_allows_no_decreases_clause]
    fn implicit_multiply(&mut self, node: Node) -> Result<Node, ParseError> {
        if (self.current_token == Token::LeftParen)
            || matches!(self.current_token, Token::ExplicitFunction(_))
            || matches!(self.current_token, Token::Num(_))
        {
            let right = self.generate_ast(OperatorCategory::Multiplicative)?;
            return Ok(Node::Multiply(Box::new(node), Box::new(right)));
        }
        Ok(node)
    }
    #[verifier::exec_allows_no_decreases_clause]
    fn get_enclosed_elements_with_impl_mult(
        &mut self,
        oper_prec: OperatorCategory,
        end_token: Token,
    ) -> Result<Node, ParseError> {
        self.get_next_token()?;
        let expr = self.generate_ast(oper_prec)?;
        self.check_paren(end_token)?;
        self.implicit_multiply(expr)
    }
    #[verifier::exec_allows_no_decreases_clause]
    fn check_paren(&mut self, expected: Token) -> Result<(), ParseError> {
        if expected == self.current_token {
            self.get_next_token()?;
            Ok(())
        } else {
            Err(ParseError::InvalidOperator(format!(
                "Expected {:?}, got {:?}",
                expected, self.current_token
            )))
        }
    }
    #[verifier::exec_allows_no_decreases_clause]
    fn convert_token_to_node(&mut self, left_expr: Node) -> Result<Node, ParseError> {
        match self.current_token {
            Token::Ampersand => {
                self.get_next_token()?;
                let right_expr = self.generate_ast(OperatorCategory::BitwiseAnd)?;
                Ok(Node::And(Box::new(left_expr), Box::new(right_expr)))
            }
            Token::Bar => {
                self.get_next_token()?;
                let right_expr = self.generate_ast(OperatorCategory::BitwiseOr)?;
                Ok(Node::Or(Box::new(left_expr), Box::new(right_expr)))
            }
            Token::LeftShift => {
                self.get_next_token()?;
                let right_expr = self.generate_ast(OperatorCategory::Shift)?;
                Ok(Node::LeftShift(Box::new(left_expr), Box::new(right_expr)))
            }
            Token::RightShift => {
                self.get_next_token()?;
                let right_expr = self.generate_ast(OperatorCategory::Shift)?;
                Ok(Node::RightShift(Box::new(left_expr), Box::new(right_expr)))
            }
            Token::Add => {
                self.get_next_token()?;
                let right_expr = self.generate_ast(OperatorCategory::Additive)?;
                Ok(Node::Add(Box::new(left_expr), Box::new(right_expr)))
            }
            Token::Subtract => {
                self.get_next_token()?;
                let right_expr = self.generate_ast(OperatorCategory::Additive)?;
                Ok(Node::Subtract(Box::new(left_expr), Box::new(right_expr)))
            }
            Token::Multiply => {
                self.get_next_token()?;
                let right_expr = self.generate_ast(OperatorCategory::Multiplicative)?;
                Ok(Node::Multiply(Box::new(left_expr), Box::new(right_expr)))
            }
            Token::Divide => {
                self.get_next_token()?;
                let right_expr = self.generate_ast(OperatorCategory::Multiplicative)?;
                Ok(Node::Divide(Box::new(left_expr), Box::new(right_expr)))
            }
            Token::Caret => {
                self.get_next_token()?;
                let right_expr = self.generate_ast(OperatorCategory::Power)?;
                Ok(Node::Pow(Box::new(left_expr), Box::new(right_expr)))
            }
            Token::ExclamationMark => {
                self.get_next_token()?;
                self.implicit_multiply(Node::Factorial(Box::new(left_expr)))
            }
            Token::Superscript(script) => {
                self.get_next_token()?;
                Ok(Node::Pow(
                    Box::new(left_expr),
                    Box::new(Node::Number(script)),
                ))
            }
            Token::Modulo => {
                self.get_next_token()?;
                let right_expr = self.generate_ast(OperatorCategory::Multiplicative)?;
                Ok(Node::Modulo(Box::new(left_expr), Box::new(right_expr)))
            }
            _ => Err(ParseError::InvalidOperator(format!(
                "Please enter a valid operator {:?}",
                self.current_token
            ))),
        }
    }
}


} // verus!
fn main(){}
