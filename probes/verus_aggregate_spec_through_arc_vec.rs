use vstd::prelude::*;
use std::sync::Arc;
verus! {
#[derive(Debug)]
pub struct EvalError { pub msg: u8 }
pub enum Node {
    Add(Box<Node>, Box<Node>),
    Max(Arc<Vec<Node>>),
    Number(i64),
}
impl Clone for Node {
    #[verifier::external_body]
    fn clone(&self) -> (r: Self) ensures r == *self { unimplemented!() }
}
pub open spec fn spec_eval(e: Node) -> Option<int>
    decreases e
{
    match e {
        Node::Number(i) => Some(i as int),
        Node::Add(a, b) => match (spec_eval(*a), spec_eval(*b)) { (Some(x), Some(y)) => if i64::MIN <= x + y <= i64::MAX { Some(x + y) } else { None }, _ => None },
        Node::Max(args) => spec_max(args@, args@.len() as int),
    }
}
pub open spec fn spec_max(args: Seq<Node>, n: int) -> Option<int>
    decreases args, n
{
    if n <= 0 || n > args.len() { None } else {
        match spec_eval(args[n-1]) {
            None => None,
            Some(x) => if n == 1 { Some(x) } else { match spec_max(args, n-1) { None => None, Some(m) => Some(if x > m { x } else { m }) } }
        }
    }
}
pub fn eval(expr: Node) -> (res: Result<i64, EvalError>)
    ensures (match res { Ok(v) => spec_eval(expr) == Some(v as int), Err(_) => spec_eval(expr).is_none() }),
    decreases expr,
{
    use self::Node::*;
    match expr {
        Number(i) => Ok(i),
        Add(expr1, expr2) => match eval(*expr1)?.checked_add(eval(*expr2)?) { Some(v) => Ok(v), None => Err(EvalError{msg:1}) },
        Max(args) => {
            if args.len() > 1 {
                let mut result = i64::MIN;
                for arg in <Vec<Node> as Clone>::clone(&args).into_iter() {
                    result = eval(arg)?.max(result);
                }
                Ok(result)
            } else {
                match args.first() {
                    Some(arg) => Ok(eval((*arg).clone())?),
                    None => Ok(0),
                }
            }
        }
    }
}
} // verus!
fn main(){}
