use vstd::prelude::*;
verus! {
#[derive(Debug)]
pub struct EvalError { pub msg: u8 }
impl From<&str> for EvalError { #[verifier::external_body] fn from(s: &str) -> Self { EvalError{msg:0} } }

pub uninterp spec fn f64_sqrt(x: f64) -> f64;
pub uninterp spec fn f64_powf(x: f64, y: f64) -> f64;
pub uninterp spec fn f64_log(x: f64, y: f64) -> f64;
pub uninterp spec fn f64_ln(x: f64) -> f64;
pub uninterp spec fn f64_exp(x: f64) -> f64;
pub assume_specification [f64::sqrt] (x: f64) -> (r: f64) ensures r == f64_sqrt(x);
pub assume_specification [f64::powf] (x: f64, y: f64) -> (r: f64) ensures r == f64_powf(x, y);
pub assume_specification [f64::log] (x: f64, y: f64) -> (r: f64) ensures r == f64_log(x, y);
pub assume_specification [f64::ln] (x: f64) -> (r: f64) ensures r == f64_ln(x);
pub assume_specification [f64::exp] (x: f64) -> (r: f64) ensures r == f64_exp(x);
pub assume_specification [i64::signum] (x: i64) -> (r: i64) ensures r == (if x > 0 { 1int } else if x == 0 { 0int } else { -1int });
pub open spec fn ipow(b: int, e: nat) -> int decreases e { if e == 0 { 1 } else { b * ipow(b, (e - 1) as nat) } }
pub assume_specification [i64::pow] (x: i64, e: u32) -> (r: i64) requires i64::MIN <= ipow(x as int, e as nat) <= i64::MAX, ensures r == ipow(x as int, e as nat);
#[verifier::external_body]
pub fn sort_i64(v: &mut Vec<i64>) ensures final(v)@.len() == old(v)@.len() { v.sort() }
pub assume_specification [i64::checked_neg] (x: i64) -> (r: Option<i64>) ensures r == (if x == i64::MIN { None::<i64> } else { Some((-x) as i64) });
pub assume_specification [i64::abs] (_0: i64) -> (r: i64)
  requires _0 != i64::MIN, ensures r == (if _0 < 0 { -_0 } else { _0 as int });
use std::sync::Arc;

pub enum Node {
    And(Box<Node>, Box<Node>),
    Or(Box<Node>, Box<Node>),
    LeftShift(Box<Node>, Box<Node>),
    RightShift(Box<Node>, Box<Node>),
    Add(Box<Node>, Box<Node>),
    Subtract(Box<Node>, Box<Node>),
    Multiply(Box<Node>, Box<Node>),
    Divide(Box<Node>, Box<Node>),
    Modulo(Box<Node>, Box<Node>),
    Pow(Box<Node>, Box<Node>),
    Root(Box<Node>, Box<Node>),
    Log(Box<Node>, Box<Node>),
    Negative(Box<Node>),
    Factorial(Box<Node>),
    Abs(Box<Node>),
    Sqrt(Box<Node>),
    Ln(Box<Node>),
    Lb(Box<Node>),
    Exp(Box<Node>),
    Exp2(Box<Node>),
    Sign(Box<Node>),
    Min(Arc<Vec<Node>>),
    Max(Arc<Vec<Node>>),
    Avg(Arc<Vec<Node>>),
    Med(Arc<Vec<Node>>),
    Gcd(Arc<Vec<Node>>),
    Lcm(Arc<Vec<Node>>),
    Number(i64),
}

impl Clone for Node {
    #[verifier::external_body]
    fn clone(&self) -> (r: Self) ensures r == *self { unimplemented!() }
}
fn gcd(expr1: i64, expr2: i64) -> i64 {
    let mut a = expr1;
    let mut b = expr2;
    while b != 0
        invariant true,
        decreases (if b < 0 { -b } else { b as int }),
    {
        let remainder = a % b;
        a = expr2;
        b = remainder;
    }
    a.abs()
}

fn lcm(expr1: i64, expr2: i64) -> i64 {
    if expr1 == 0 || expr2 == 0 {
        return 0;
    }
    (expr1 / gcd(expr1, expr2) * expr2).abs()
}


pub open spec fn in_i64(x: int) -> bool { i64::MIN <= x <= i64::MAX }
pub open spec fn tdiv(a: int, b: int) -> int { if (a >= 0) == (b > 0) || a == 0 { (if a>=0 {a} else {-a}) / (if b>=0 {b} else {-b}) } else { -((if a>=0 {a} else {-a}) / (if b>=0 {b} else {-b})) } }
pub open spec fn spec_eval(e: Node) -> Option<int>
    decreases e
{
    match e {
        Node::Number(i) => Some(i as int),
        Node::Add(a, b) => match (spec_eval(*a), spec_eval(*b)) { (Some(x), Some(y)) => if in_i64(x + y) { Some(x + y) } else { None }, _ => None },
        Node::Subtract(a, b) => match (spec_eval(*a), spec_eval(*b)) { (Some(x), Some(y)) => if in_i64(x - y) { Some(x - y) } else { None }, _ => None },
        Node::Multiply(a, b) => match (spec_eval(*a), spec_eval(*b)) { (Some(x), Some(y)) => if in_i64(x * y) { Some(x * y) } else { None }, _ => None },
        Node::Negative(a) => match spec_eval(*a) { Some(x) => if in_i64(-x) { Some(-x) } else { None }, _ => None },
        _ => None,
    }
}
pub fn eval(expr: Node) -> (res: Result<i64, EvalError>)
    ensures
        (match res { Ok(v) => spec_eval(expr) == Some(v as int), Err(_) => spec_eval(expr).is_none() }),
    decreases expr,
{
    use self::Node::*;
    match expr {
        Number(i) => Ok(i),
        Add(expr1, expr2) => match eval(*expr1)?.checked_add(eval(*expr2)?) { Some(v) => Ok(v), None => Err("Integer overflow".into()) },
        Subtract(expr1, expr2) => match eval(*expr1)?.checked_sub(eval(*expr2)?) { Some(v) => Ok(v), None => Err("Integer overflow".into()) },
        Multiply(expr1, expr2) => match eval(*expr1)?.checked_mul(eval(*expr2)?) { Some(v) => Ok(v), None => Err("Integer overflow".into()) },
        Negative(expr1) => match eval(*expr1)?.checked_neg() { Some(v) => Ok(v), None => Err("Integer overflow".into()) },
        _ => Err(EvalError{msg:0}),
    }
}
} // verus!
fn main(){}
