use vstd::prelude::*;
use std::iter::Peekable;
use std::str::Chars;
verus! {
#[verifier::external_type_specification]
#[verifier::external_body]
#[verifier::reject_recursive_types(I)]
pub struct ExPeekable<I: Iterator>(Peekable<I>);

pub uninterp spec fn pk_view<I: Iterator>(p: &Peekable<I>) -> Seq<I::Item>;

pub assume_specification<I: Iterator> [Peekable::<I>::peek] (p: &mut Peekable<I>) -> (r: Option<&I::Item>)
    ensures pk_view(final(p)) == pk_view(old(p)),
        pk_view(old(p)).len() == 0 ==> r.is_none(),
        pk_view(old(p)).len() > 0 ==> r == Some(&pk_view(old(p))[0]);

pub assume_specification<I: Iterator> [<Peekable<I> as Iterator>::next] (p: &mut Peekable<I>) -> (r: Option<I::Item>)
    ensures
        pk_view(old(p)).len() == 0 ==> r.is_none() && pk_view(final(p)) == pk_view(old(p)),
        pk_view(old(p)).len() > 0 ==> r == Some(pk_view(old(p))[0]) && pk_view(final(p)) == pk_view(old(p)).subrange(1, pk_view(old(p)).len() as int);

pub assume_specification [char::is_ascii_digit] (c: &char) -> (r: bool)
    ensures r == ('0' <= *c && *c <= '9');

pub struct Tokenizer<'a> {
    expr: Peekable<Chars<'a>>,
}
pub open spec fn is_digit_or_dot(c: char) -> bool { ('0' <= c && c <= '9') || c == '.' }

impl<'a> Tokenizer<'a> {
    fn scan(&mut self, first: char) -> (r: Option<u64>)
    {
        let mut count: u64 = 0;
        while let Some(next_char) = self.expr.peek()
            invariant true,
            decreases pk_view(&self.expr).len(),
        {
            if next_char.is_ascii_digit() || next_char == &'.' {
                let c = self.expr.next()?;
                if count < 1000 { count = count + 1; }
            } else {
                break;
            }
        }
        Some(count)
    }
}
} // verus!
fn main(){}
