use vstd::prelude::*;
verus! {
#[verifier::external_body]
#[derive(Clone, Copy)]
pub struct Decimal { _p: [u8; 16] }
pub uninterp spec fn d_add_fits(a: Decimal, b: Decimal) -> bool;
pub uninterp spec fn d_add(a: Decimal, b: Decimal) -> Decimal;
impl vstd::std_specs::ops::AddSpecImpl<Decimal> for Decimal {
    open spec fn obeys_add_spec() -> bool { true }
    open spec fn add_req(self, rhs: Decimal) -> bool { d_add_fits(self, rhs) }
    open spec fn add_spec(self, rhs: Decimal) -> Decimal { d_add(self, rhs) }
}
impl core::ops::Add<Decimal> for Decimal {
    type Output = Decimal;
    #[verifier::external_body]
    fn add(self, rhs: Decimal) -> Decimal { unimplemented!() }
}
impl Decimal {
    #[verifier::external_body]
    pub fn checked_add(self, rhs: Decimal) -> (r: Option<Decimal>)
        ensures r == (if d_add_fits(self, rhs) { Some(d_add(self, rhs)) } else { None }) { unimplemented!() }
}
fn arm_bad(a: Decimal, b: Decimal) -> (r: Result<Decimal, u8>)
    ensures r == (if d_add_fits(a, b) { Ok::<Decimal, u8>(d_add(a, b)) } else { Err(1u8) })
{ Ok(a + b) }
fn arm_good(a: Decimal, b: Decimal) -> (r: Result<Decimal, u8>)
    ensures r == (if d_add_fits(a, b) { Ok::<Decimal, u8>(d_add(a, b)) } else { Err(1u8) })
{ match a.checked_add(b) { Some(v) => Ok(v), None => Err(1) } }
} // verus!
fn main(){}
