"""Which property owns which obligation (DESIGN section 8).

A rule is (unit glob, function glob, arm glob, kind glob) -> property ids.
`kind` is the Verus failure class (post, precond, overflow, divzero, shift, index, decreases, invariant,
assert) or, for Kani, the failed check class.  An obligation (function, arm) is *owned* by every property
that appears in a rule matching it with any kind; a *failure* is reported under the properties of the rules
matching its kind too.  Arm `-` is the function outside its match arms; arm `*` matches everything.
"""
from fnmatch import fnmatchcase

PANIC_KINDS = ['overflow', 'divzero', 'shift', 'index', 'precond']

# ---- eval_i64::ast -----------------------------------------------------------------------------
I64_EXACT_ARMS = ['And', 'Or', 'LeftShift', 'RightShift', 'Add', 'Subtract', 'Multiply', 'Divide', 'Modulo',
                  'Pow', 'Negative', 'Abs', 'Sign', 'Factorial']
I64_FUNC_ARMS = ['Abs', 'Sign', 'Factorial', 'Modulo', 'Pow', 'Exp2']          # C10: exact functions of eval_i64
I64_REAL_ARMS = ['Sqrt', 'Root', 'Ln', 'Lb', 'Exp', 'Log']                      # mapping is a Kani obligation
I64_AGG_ARMS = ['Min', 'Max', 'Avg', 'Med', 'Gcd', 'Lcm']

RULES = []


def rule(unit, fn, arm, kinds, pids):
    for k in kinds:
        RULES.append((unit, fn, arm, k, tuple(pids)))


# values
for a in I64_EXACT_ARMS:
    rule('i64-ast', 'eval', a, ['post', 'invariant', 'assert'], ['C06'])
for a in I64_FUNC_ARMS:
    rule('i64-ast', 'eval', a, ['post', 'invariant', 'assert'], ['C10'])
for a in I64_AGG_ARMS:
    rule('i64-ast', 'eval', a, ['post', 'invariant', 'assert'], ['C11'])
rule('i64-ast', 'eval', 'Number', ['post'], ['C06', 'C14', 'C20'])
rule('i64-ast', 'checked', '*', ['post'], ['C06'])
rule('i64-ast', 'gcd', '*', ['post', 'invariant', 'assert'], ['C11'])
rule('i64-ast', 'lcm', '*', ['post', 'invariant', 'assert'], ['C11'])
# panic freedom: every implicit obligation of every function of the unit
rule('i64-ast', '*', '*', PANIC_KINDS, ['C01'])
for a in I64_EXACT_ARMS:
    rule('i64-ast', 'eval', a, ['overflow', 'divzero', 'shift'], ['C06'])   # "never a wrapped value, debug == release"
for a in I64_AGG_ARMS:
    rule('i64-ast', 'eval', a, PANIC_KINDS, ['C11'])                        # "an argument that fails ... returns Err"
# termination
rule('i64-ast', '*', '*', ['decreases'], ['C02'])
# compositionality: a node's value is a function of its children's values = the contract of eval itself
rule('i64-ast', 'eval', '*', ['post'], ['C20'])


def owners(unit, fn, arm, kind=None):
    """property ids owning obligation (unit, fn, arm) [restricted to failures of `kind`]"""
    out = []
    arm = arm or '-'
    for (u, f, a, k, pids) in RULES:
        if fnmatchcase(unit, u) and fnmatchcase(fn, f) and (a == '*' or fnmatchcase(arm, a)):
            if kind is None or fnmatchcase(kind, k):
                for p in pids:
                    if p not in out:
                        out.append(p)
    return out
