"""Which property owns which obligation (DESIGN section 8).

A rule is (unit glob, function glob, arm glob, kind glob) -> property ids.
`kind` is the Verus failure class (post, precond, overflow, divzero, shift, index, decreases, invariant,
assert) or, for Kani, the failed check class.  An obligation (function, arm) is *owned* by every property
that appears in a rule matching it with any kind; a *failure* is reported under the properties of the rules
matching its kind too.  Arm `-` is the function outside its match arms; arm `*` matches everything.
"""
from fnmatch import fnmatchcase

PANIC_KINDS = ['overflow', 'divzero', 'shift', 'index', 'precond']

# ---- eval_i64::ast -----------------------------------------------------------------------------
I64_EXACT_ARMS = ['And', 'Or', 'LeftShift', 'RightShift', 'Add', 'Subtract', 'Multiply', 'Divide', 'Modulo',
                  'Pow', 'Negative', 'Abs', 'Sign', 'Factorial']
I64_FUNC_ARMS = ['Abs', 'Sign', 'Factorial', 'Modulo', 'Pow', 'Exp2']          # C10: exact functions of eval_i64
I64_REAL_ARMS = ['Sqrt', 'Root', 'Ln', 'Lb', 'Exp', 'Log']                      # mapping is a Kani obligation
I64_AGG_ARMS = ['Min', 'Max', 'Avg', 'Med', 'Gcd', 'Lcm']

RULES = []


def rule(unit, fn, arm, kinds, pids):
    for k in kinds:
        RULES.append((unit, fn, arm, k, tuple(pids)))


# values
for a in I64_EXACT_ARMS:
    rule('i64-ast', 'eval', a, ['post', 'invariant', 'assert'], ['C06'])
for a in ['Add', 'Subtract', 'Multiply', 'Divide', 'Modulo', 'Pow', 'Negative', 'Abs', 'Sign', 'Factorial', 'Min', 'Max']:
    rule('i64-ast', 'eval', a, ['post', 'invariant', 'assert'], ['C15'])
for a in I64_FUNC_ARMS:
    rule('i64-ast', 'eval', a, ['post', 'invariant', 'assert'], ['C10'])
for a in I64_AGG_ARMS:
    rule('i64-ast', 'eval', a, ['post', 'invariant', 'assert'], ['C11'])
rule('i64-ast', 'eval', 'Number', ['post'], ['C06', 'C14', 'C20'])
rule('i64-ast', 'checked', '*', ['post'], ['C06'])
rule('i64-ast', 'gcd', '*', ['post', 'invariant', 'assert'], ['C11'])
rule('i64-ast', 'lcm', '*', ['post', 'invariant', 'assert'], ['C11'])
# panic freedom: every implicit obligation of every function of the unit
rule('i64-ast', '*', '*', PANIC_KINDS, ['C01'])
for a in I64_EXACT_ARMS:
    rule('i64-ast', 'eval', a, ['overflow', 'divzero', 'shift'], ['C06'])   # "never a wrapped value, debug == release"
for a in I64_AGG_ARMS:
    rule('i64-ast', 'eval', a, PANIC_KINDS, ['C11'])                        # "an argument that fails ... returns Err"
# termination
rule('i64-ast', '*', '*', ['decreases'], ['C02', 'C01'])
# compositionality: a node's value is a function of its children's values = the contract of eval itself
rule('i64-ast', 'eval', '*', ['post'], ['C20'])


def owners(unit, fn, arm, kind=None):
    """property ids owning obligation (unit, fn, arm) [restricted to failures of `kind`]"""
    out = []
    arm = arm or '-'
    for (u, f, a, k, pids) in RULES:
        if fnmatchcase(unit, u) and fnmatchcase(fn, f) and (a == '*' or fnmatchcase(arm, a)):
            if kind is None or fnmatchcase(kind, k) or fnmatchcase(kind.split(':')[0], k):
                for p in pids:
                    if p not in out:
                        out.append(p)
    return out


# ---- the five parsers (units <stack>-parser) ---------------------------------------------------------
VAL = ['post', 'invariant', 'assert', 'precond']      # a failed callee precondition inside a parser method = wrong call shape
P = '*-parser'
rule(P, 'get_oper_prec', '*', VAL, ['C04', 'C17', 'C15'])
rule(P, 'generate_ast', '*', VAL, ['C04', 'C03', 'C20', 'C17'])
rule(P, 'parse', '*', VAL, ['C03', 'C12', 'C15'])
rule(P, 'check_paren', '*', VAL, ['C03', 'C04'])
rule(P, 'function_static_arguments', '*', VAL, ['C03', 'C10'])
rule(P, 'function_arguments', '*', VAL, ['C03', 'C11'])
rule(P, 'find_item_list', '*', VAL, ['C03', 'C11'])
rule(P, 'implicit_multiply', '*', VAL, ['C12'])
rule(P, 'get_enclosed_elements_with_impl_mult_*', '*', VAL, ['C04', 'C12', 'C13', 'C20'])
rule(P, 'new', '*', VAL, ['C14', 'C03'])
rule(P, 'get_next_token', '*', VAL, ['C03'])
rule(P, 'parse_number', 'Ans', VAL, ['C14', 'C20', 'C12'])
rule(P, 'parse_number', 'ExplicitFunction', VAL, ['C10', 'C12'])
rule(P, 'parse_number', 'ExplicitFunction/*', VAL, ['C10', 'C12'])      # C12: a function call starts / continues an implicit product
for f in ('Min', 'Max', 'Avg', 'Med', 'Gcd', 'Lcm'):
    rule(P, 'parse_number', 'ExplicitFunction/' + f, VAL, ['C11'])
for f in ('Mod', 'Pow'):
    rule(P, 'parse_number', 'ExplicitFunction/' + f, VAL, ['C13'])      # mod(a,b) / pow(a,b) build the nodes of % and ^
rule(P, 'parse_number', 'Subtract', VAL, ['C04'])
rule(P, 'parse_number', 'Add', VAL, ['C04', 'C13'])
rule(P, 'parse_number', 'Num', VAL, ['C12', 'C19'])
rule(P, 'parse_number', 'Pi', VAL, ['C10', 'C12'])
rule(P, 'parse_number', 'E', VAL, ['C10', 'C12'])
rule(P, 'parse_number', 'LeftParen', VAL, ['C04', 'C13', 'C20'])
rule(P, 'parse_number', 'LeftFloor', VAL, ['C04', 'C13'])
rule(P, 'parse_number', 'LeftCeiling', VAL, ['C04', 'C13'])
rule(P, 'parse_number', 'default', VAL, ['C03'])
rule(P, 'parse_number', '-', VAL, ['C03'])
for t in ('Ampersand', 'Bar', 'LeftShift', 'RightShift', 'Add', 'Subtract', 'Multiply', 'Divide', 'Caret', 'Modulo'):
    rule(P, 'convert_token_to_node', t, VAL, ['C04'])
rule(P, 'convert_token_to_node', 'ExclamationMark', VAL, ['C04', 'C12', 'C10'])
rule(P, 'convert_token_to_node', 'Superscript', VAL, ['C13', 'C04', 'C12'])
rule(P, 'convert_token_to_node', 'DegToRad', VAL, ['C10', 'C04', 'C12'])
rule(P, 'convert_token_to_node', 'RadToDeg', VAL, ['C10', 'C04', 'C12'])
rule(P, 'convert_token_to_node', 'default', VAL, ['C03'])
rule(P, 'convert_token_to_node', '-', VAL, ['C03'])
rule(P, '*', '*', ['overflow', 'divzero', 'shift', 'index'], ['C01'])
rule(P, '*', '*', ['decreases'], ['C02', 'C01'])
# progress clause (a successful call of a parser method consumes a token): what makes every loop and recursion of the parser
# terminate - a call that never returns neither yields Ok nor Err (C01) and is not bounded by the input length (C02)
rule(P, '*', '*', ['progress'], ['C01', 'C02'])


# ---- eval_complex::ast (unit complex-ast): mapping against the num_complex header
rule('complex-ast', 'eval', '*', ['post', 'assert', 'precond'], ['C08', 'C10', 'C20'])
rule('complex-ast', 'eval', 'Number', ['post'], ['C14'])
rule('complex-ast', '*', '*', PANIC_KINDS, ['C01'])
rule('complex-ast', '*', '*', ['decreases'], ['C02', 'C01'])


# C15, third / fourth clause (eval_complex resp. eval_decimal agree with eval_f64): which num_complex / rust_decimal operation a node applies
rule('complex-ast', 'eval', '*', ['post', 'assert'], ['C15'])
rule('decimal-ast', 'eval', '*', ['post', 'assert'], ['C15'])
# ---- eval_decimal::ast (unit decimal-ast): mapping + error contract against the rust_decimal header
DEC_ARITH = ['Add', 'Subtract', 'Multiply', 'Divide', 'Modulo', 'Negative']
DEC_FUNCS = ['Abs', 'Floor', 'Ceil', 'Round', 'Truncate', 'Sign', 'Ln', 'Lb', 'Exp', 'Exp2', 'Sqrt', 'Pow', 'Root', 'Log', 'Factorial', 'LambertW', 'ILog']
for a in DEC_ARITH:
    rule('decimal-ast', 'eval', a, ['post', 'assert'], ['C07', 'C20'])
for a in DEC_FUNCS:
    rule('decimal-ast', 'eval', a, ['post', 'assert'], ['C10', 'C20'])
rule('decimal-ast', 'eval', 'Number', ['post'], ['C07', 'C14', 'C20'])
rule('decimal-ast', 'checked', '*', ['post'], ['C07'])
rule('decimal-ast', '*', '*', PANIC_KINDS, ['C01'])
for a in DEC_ARITH:
    rule('decimal-ast', 'eval', a, PANIC_KINDS, ['C07'])        # "by zero / out of range yields Err" - not a panic
for a in ('Min', 'Max', 'Avg', 'Med'):
    rule('decimal-ast', 'eval', a, PANIC_KINDS, ['C11'])        # an argument that fails makes the aggregate return Err
rule('decimal-ast', '*', '*', ['decreases'], ['C02', 'C01'])


# ---- tokenizers (units <stack>-tok): no panic, progress (>= 1 character per token), Eof exactly at the end of input
T = '*-tok'
rule(T, '*', '*', PANIC_KINDS, ['C01'])
rule(T, '*', '*', ['decreases'], ['C02', 'C01'])
rule(T, 'next', '*', ['post', 'invariant'], ['C02', 'C03'])
rule(T, 'deserialize_superscript_number', '*', ['post', 'invariant'], ['C02'])
rule(T, 'new', '*', ['post'], ['C03'])
# literal arms: maximal-munch scanning, the text handed to the std / rust_decimal conversion, integer vs float vs imaginary
for arm in ("Some('0'..='9')", "Some('.')"):
    rule(T, 'next', arm, ['post', 'invariant', 'assert'], ['C19'])
rule('number-tok', 'next', "Some('0'..='9')", ['post', 'invariant', 'assert'], ['C09'])
for arm in ("Some('0'..='9')", "Some('.')", "Some('i')"):
    rule('complex-tok', 'next', arm, ['post', 'invariant', 'assert'], ['C08'])


# ---- the public wrappers (units <stack>-glue): strip whitespace, Some(placeholder), value returned unchanged, Err iff no parse
G = '*-glue'
rule(G, 'eval_*', '*', ['post', 'precond', 'assert'], ['C13', 'C14', 'C03', 'C20'])
# every property about what eval_X(text, placeholder) returns presupposes that the wrapper is the plain composition
# eval(parse(strip(text), Some(placeholder))) and returns that value unchanged: the wrapper contract is part of each of them
rule(G, 'eval_*', '*', ['post', 'precond', 'assert'], ['C04', 'C10', 'C11', 'C12', 'C15', 'C19'])
rule('i64-glue', 'eval_*', '*', ['post', 'precond', 'assert'], ['C06'])
rule('f64-glue', 'eval_*', '*', ['post', 'precond', 'assert'], ['C05'])
rule('number-glue', 'eval_*', '*', ['post', 'precond', 'assert'], ['C09'])
rule('decimal-glue', 'eval_*', '*', ['post', 'precond', 'assert'], ['C07'])
rule('complex-glue', 'eval_*', '*', ['post', 'precond', 'assert'], ['C08'])
rule(G, '*', '*', ['overflow', 'divzero', 'shift', 'index'], ['C01'])
rule(G, '*', '*', ['decreases'], ['C02', 'C01'])


# ---- eval_f64::ast (unit f64-ast): every node applies the named IEEE / libm primitive (f64_header.vinc) to its children's values
F64_ARITH = ['Add', 'Subtract', 'Multiply', 'Divide', 'Modulo', 'Negative', 'Pow', 'Abs', 'Floor', 'Ceil', 'Truncate', 'Round', 'Sqrt']
F64_FUNCS = ['Abs', 'Floor', 'Ceil', 'Round', 'Truncate', 'Sign', 'Ln', 'Lb', 'Exp', 'Exp2', 'Sqrt', 'Pow', 'Root', 'Log', 'Sin', 'Cos', 'Tan', 'Sinh', 'Cosh', 'Tanh',
             'Asin', 'Acos', 'Atan', 'Arsinh', 'Arcosh', 'Artanh', 'Atan2', 'LambertW', 'Factorial', 'ILog']
F64_AGG = ['Min', 'Max', 'Avg', 'Med']
for a in F64_ARITH:
    rule('f64-ast', 'eval', a, ['post', 'assert'], ['C05', 'C15'])
for a in F64_FUNCS:
    rule('f64-ast', 'eval', a, ['post', 'assert'], ['C10'])
for a in ('Arsinh', 'Arcosh', 'Artanh', 'Pow', 'Modulo'):
    rule('f64-ast', 'eval', a, ['post', 'assert'], ['C13'])
for a in F64_AGG:
    rule('f64-ast', 'eval', a, ['post', 'invariant', 'assert'] + PANIC_KINDS, ['C11'])
rule('f64-ast', 'eval', 'Number', ['post'], ['C05', 'C14'])
rule('f64-ast', 'eval', '*', ['post', 'assert'], ['C20'])
rule('f64-ast', '*', '*', PANIC_KINDS, ['C01'])
rule('f64-ast', '*', '*', ['decreases'], ['C02', 'C01'])
for a in ('Factorial', 'LambertW', 'ILog'):
    rule('f64-ast', 'eval', a, ['invariant', 'overflow'], ['C02'])      # the iteration caps


# ---- eval_number::ast + number.rs (unit number-ast): Integer results exact when they fit, else the Float of the operands; Float /
# mixed arms apply the IEEE / libm primitive; Number::from(f64) as C18 states it
NUM_ARITH = ['Add', 'Subtract', 'Multiply', 'Divide', 'Modulo', 'Negative', 'Pow', 'Abs', 'Sign', 'Factorial', 'Floor', 'Ceil', 'Round', 'Truncate']
for a in NUM_ARITH:
    rule('number-ast', 'eval', a, ['post', 'assert', 'invariant'], ['C09', 'C15'])
for a in F64_FUNCS:
    rule('number-ast', 'eval', a, ['post', 'assert'], ['C10'])
for a in ('Arsinh', 'Arcosh', 'Artanh', 'Pow', 'Modulo'):
    rule('number-ast', 'eval', a, ['post', 'assert'], ['C13'])
for a in F64_AGG:
    rule('number-ast', 'eval', a, ['post', 'invariant', 'assert'] + PANIC_KINDS, ['C11'])
for a in ('Min', 'Max'):
    rule('number-ast', 'eval', a, ['post', 'invariant', 'assert'], ['C15'])
rule('number-ast', 'eval', 'Num', ['post'], ['C09', 'C14'])
rule('number-ast', 'eval', '*', ['post', 'assert'], ['C20'])
rule('number-ast', 'from*', '*', ['post', 'assert'], ['C18', 'C09', 'C10', 'C15'])
# C18 "consequently no conversion changes a numeric value": the arms whose job is a conversion (the rounding functions hand the rounded
# double to Number::from) and the wrapper, which must return the evaluator's Number as it is
for a in ('Floor', 'Ceil', 'Round', 'Truncate'):
    rule('number-ast', 'eval', a, ['post', 'assert'], ['C18'])
rule('number-glue', 'eval_*', '*', ['post', 'precond', 'assert'], ['C18'])
rule('number-ast', '*', '*', PANIC_KINDS, ['C01'])
rule('number-ast', '*', '*', ['decreases'], ['C02', 'C01'])
for a in ('Factorial', 'LambertW', 'ILog'):
    rule('number-ast', 'eval', a, ['invariant', 'overflow'], ['C02'])


# ---- the cost contract of every evaluator (T24 ghost step counter): eval makes at most cost(expr) = |nodes| calls (C02)
rule('*-ast', '*', '*', ['cost'], ['C02'])


# ---- tokenizers: the lexical specification (gen/<stack>-lex.vinc).  Letter arms: names / aliases -> function tokens, only before
# `(`; pi, e, rad, i.  Symbol arms: the operator / bracket characters of the evaluator.  Default arm: unknown characters rejected.
for c in 'abcdefghijklmnopqrstuvwxyz':
    rule(T, 'next', "Some('%s')" % c, ['post', 'assert'], ['C10', 'C13', 'C03'])
for c in 'ip':
    rule('complex-tok', 'next', "Some('%s')" % c, ['post', 'assert'], ['C08'])
for c in 'per':
    rule(T, 'next', "Some('%s')" % c, ['post', 'assert'], ['C12'])       # pi / e / rad: tokens the juxtaposition rule treats specially
for c in "+-*/^%!<>&|":
    rule(T, 'next', "Some('%s')" % ('[*]' if c == '*' else c), ['post', 'assert'], ['C04'])      # `*` is a glob character
rule(T, 'next', "Some('@')", ['post', 'assert'], ['C14'])
# by lexical class of the failed clause, whatever the arm is called (an arm merged / split / renamed by a change keeps its owners)
rule(T, 'next', '*', ['post:super'], ['C13', 'C03', 'C04'])
rule(T, 'next', '*', ['post:word'], ['C10', 'C13', 'C03', 'C12'])
rule(T, 'next', '*', ['post:sym'], ['C04', 'C03', 'C14', 'C12'])
rule(T, 'next', '*', ['post:lit'], ['C19', 'C03', 'C15'])
rule(T, 'next', '*', ['post:other'], ['C03'])
# the value property of an evaluator presupposes that its own tokenizer lexes every class as specified
for st, pid in (('f64', 'C05'), ('i64', 'C06'), ('decimal', 'C07'), ('complex', 'C08'), ('number', 'C09')):
    rule(st + '-tok', 'next', '*', ['post:lit', 'post:super', 'post:word', 'post:sym', 'post:other'], [pid])


# ---- every refinement obligation of a parser is part of "Ok iff the text is an expression of the grammar" (C03) and of the
# agreement argument (C15: the five parsers refine spec parsers generated from tables that are equal on shared entries)
rule(P, '*', '*', VAL, ['C03', 'C15', 'C20'])      # C20: a parser that deviates from the grammar can make C[(E)] and C[@] differ
# C04 "the value is that of evaluating the tree so obtained": the operator arms of every evaluator
for u in ('i64-ast', 'f64-ast', 'number-ast', 'decimal-ast', 'complex-ast'):
    for a in ('Add', 'Subtract', 'Multiply', 'Divide', 'Modulo', 'Pow', 'Negative', 'Factorial', 'And', 'Or', 'LeftShift', 'RightShift'):
        rule(u, 'eval', a, ['post', 'assert'], ['C04'])
# a literal that two evaluators read differently (or that one of them rejects) breaks their agreement (C15)
for arm in ("Some('0'..='9')", "Some('.')"):
    rule(T, 'next', arm, ['post', 'invariant', 'assert'], ['C15'])
# the value property of each evaluator speaks about "the expression's tree": the parser of its own stack building that tree is part of it
for st, pid in (('f64', 'C05'), ('i64', 'C06'), ('decimal', 'C07'), ('complex', 'C08'), ('number', 'C09')):
    rule(st + '-parser', '*', '*', VAL, [pid])
# ---- C15, first clause as a theorem over the two specifications (unit i64number-agree)
rule('i64number-agree', '*', '*', ['post', 'assert', 'precond', 'decreases', 'invariant'], ['C15'])
rule('f64number-agree', '*', '*', ['post', 'assert', 'precond', 'decreases', 'invariant'], ['C15'])

# superscript exponents: the ten superscript digits, the maximal run, the digits handed to the conversion (C13: 2¹⁰ = 2^10)
for c in '⁰¹²³⁴⁵⁶⁷⁸⁹':
    rule(T, 'next', "Some('%s')" % c, ['post', 'assert'], ['C13', 'C03'])
rule(T, 'superscript_digit_to_digit', '*', ['post', 'assert'], ['C13', 'C03', 'C04'])      # C03: a character that is no superscript digit must not lex as one
rule(T, 'deserialize_superscript_number', '*', ['post', 'invariant', 'assert'], ['C13', 'C03', 'C04'])

# size / cost clauses of the parser methods: the parsed tree has fewer than 2 * tokens nodes, cost(tree) = nodes (C02)
rule(P, '*', '*', ['cost'], ['C02'])

# the literal arms also belong to the evaluator's own value property: a literal outside the range is rejected, never wrapped (C06),
# the text of a decimal / float literal reaches the conversion unchanged (C07, C05)
for arm in ("Some('0'..='9')", "Some('.')"):
    rule('i64-tok', 'next', arm, ['post', 'invariant', 'assert'], ['C06'])
    rule('decimal-tok', 'next', arm, ['post', 'invariant', 'assert'], ['C07'])
    rule('f64-tok', 'next', arm, ['post', 'invariant', 'assert'], ['C05'])
