"""Which units decide which property (DESIGN section 7)."""

PARALLEL_UNITS = 6

# name -> extraction unit (+ feature set / rlimit)
VERUS_UNITS = {
    'i64-ast': dict(unit='i64-ast', rlimit=30),
    'i64-parser': dict(unit='i64-parser', rlimit=30),
}

KANI_GROUPS = {}

PARSER_ASSUME = [
    'A-tokenizer-shape: the token sequence handed to the parser ends with Eof, has no Eof before that and no two adjacent number literals (obligation of the tokenizer units)',
    'T2: derived Clone/PartialEq of Token, NativeFunction, Node are structural; derived PartialOrd of OperatorCategory follows declaration order (the latter also proved by Kani on the real derive)',
    'T6 (fn-pointer parameter specialised per call site), T7 (format! dropped), T5 extraction rewrites',
    'arm splitting: match arms are verified in separate runs, every other arm pruned with assume(false); the runs together cover all arms',
]

PLAN = {
    'C06': dict(
        verus=['i64-ast'], kani=[],
        level='proof',
        assumptions=[
            'A-std-int: assumed contracts of i64::checked_neg/checked_abs/checked_pow/unsigned_abs/signum/wrapping_rem (vstd has none); vstd contracts of checked_add/sub/mul/div',
            'T1 (error type), T2 (derived Clone is structural), T5, T12, T13, T14 extraction rewrites (DESIGN 4.2)',
            'literal overflow in the tokenizer is decided by the tokenizer unit, not here',
        ],
        unclaimed=[],
    ),
    'C03': dict(verus=['i64-parser'], level='proof', assumptions=PARSER_ASSUME, unclaimed=[]),
    'C04': dict(verus=['i64-parser'], level='proof', assumptions=PARSER_ASSUME, unclaimed=[]),
    'C12': dict(verus=['i64-parser'], level='proof', assumptions=PARSER_ASSUME, unclaimed=[]),
}


def verus_units(pid, tier):
    return PLAN[pid].get('verus', []) + (PLAN[pid].get('verus_thorough', []) if tier == 'thorough' else [])


def kani_groups(pid, tier):
    return PLAN[pid].get('kani', []) + (PLAN[pid].get('kani_thorough', []) if tier == 'thorough' else [])
