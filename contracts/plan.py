"""Which units decide which property (DESIGN section 7)."""

PARALLEL_UNITS = 6

# name -> extraction unit (+ feature set / rlimit)
VERUS_UNITS = {
    'i64-ast': dict(unit='i64-ast', rlimit=30),
}

KANI_GROUPS = {}

PLAN = {
    'C06': dict(
        verus=['i64-ast'], kani=[],
        level='proof',
        assumptions=[
            'A-std-int: assumed contracts of i64::checked_neg/checked_abs/checked_pow/unsigned_abs/signum/wrapping_rem (vstd has none); vstd contracts of checked_add/sub/mul/div',
            'T1 (error type), T2 (derived Clone is structural), T5, T12, T13, T14 extraction rewrites (DESIGN 4.2)',
            'literal overflow in the tokenizer is decided by the tokenizer unit, not here',
        ],
        unclaimed=[],
    ),
}


def verus_units(pid, tier):
    return PLAN[pid].get('verus', []) + (PLAN[pid].get('verus_thorough', []) if tier == 'thorough' else [])


def kani_groups(pid, tier):
    return PLAN[pid].get('kani', []) + (PLAN[pid].get('kani_thorough', []) if tier == 'thorough' else [])
