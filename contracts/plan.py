"""Which units decide which property (DESIGN section 7)."""

PARALLEL_UNITS = 6

# name -> extraction unit (+ feature set / rlimit)
VERUS_UNITS = {
    'i64-ast': dict(unit='i64-ast', rlimit=30),
    'i64-parser': dict(unit='i64-parser', rlimit=30),
    'f64-parser': dict(unit='f64-parser', rlimit=30),
    'number-parser': dict(unit='number-parser', rlimit=30),
    'decimal-parser': dict(unit='decimal-parser', rlimit=30),
    'complex-parser': dict(unit='complex-parser', rlimit=30),
    'complex-ast': dict(unit='complex-ast', rlimit=30),
    'decimal-ast': dict(unit='decimal-ast', rlimit=30, multiple_errors=40),
    'f64-ast': dict(unit='f64-ast', rlimit=30),
    'number-ast': dict(unit='number-ast', rlimit=30, always_split=['eval']),
    'i64number-agree': dict(unit='i64number-agree', rlimit=30),
    'f64number-agree': dict(unit='f64number-agree', rlimit=30),
    'i64-tok': dict(unit='i64-tok', rlimit=30), 'f64-tok': dict(unit='f64-tok', rlimit=30), 'number-tok': dict(unit='number-tok', rlimit=30),
    'decimal-tok': dict(unit='decimal-tok', rlimit=30), 'complex-tok': dict(unit='complex-tok', rlimit=30),
    'i64-glue': dict(unit='i64-glue'), 'f64-glue': dict(unit='f64-glue'), 'number-glue': dict(unit='number-glue'), 'decimal-glue': dict(unit='decimal-glue'), 'complex-glue': dict(unit='complex-glue'),
}

# name -> dict(mods=[(module file the harness becomes a child of, harness file, module name)], flags, timeout, jobs)
# --no-overflow-checks silences CBMC's own float NaN/overflow checks (NaN and inf are values, C05); rustc's
# overflow assertions, which C01/C06/C09 rely on, stay on (canary in every group)
KANI_GROUPS = {
    'f64-ast': dict(mods=[('src/eval_f64/mod.rs', 'kani/f64_ast.rs', 'verif_ast')], flags=['--no-overflow-checks', '-Z', 'stubbing'], timeout=900, jobs=14),
    'i64-ast': dict(mods=[('src/eval_i64/mod.rs', 'kani/i64_ast.rs', 'verif_ast')], flags=['--no-overflow-checks', '-Z', 'stubbing'], timeout=600, jobs=12),
    'tables': dict(mods=[('src/utils/mod.rs', 'kani/tables.rs', 'verif_tables')], flags=[], timeout=300, jobs=2),
    'complex-ast': dict(mods=[('src/eval_complex/mod.rs', 'kani/complex_ast.rs', 'verif_ast')], flags=['--no-overflow-checks'], timeout=600, jobs=6),
    'number-ast': dict(mods=[('src/eval_number/mod.rs', 'kani/number_ast.rs', 'verif_ast')], flags=['--no-overflow-checks', '-Z', 'stubbing'], timeout=900, jobs=14),
    'number-l4': dict(mods=[('src/eval_number/mod.rs', 'kani/number_l4.rs', 'verif_l4')], flags=['--no-overflow-checks'], timeout=600, jobs=4),
}

PARSERS = ['i64-parser', 'f64-parser', 'number-parser', 'decimal-parser', 'complex-parser']

TOKS = ['i64-tok', 'f64-tok', 'number-tok', 'decimal-tok', 'complex-tok']

TOK_ASSUME = [
    'A-std-iter (T9, T10): assumed contracts of Peekable<Chars>::peek / next, char::is_ascii_digit, and of the two adapter idioms clone().take(n).collect::<String>() and by_ref().take(n).for_each(drop); Tokenizer::new is chars().peekable()',
    'A-std-parse (T16): str::parse::<f64|i64> and Decimal::from_str are uninterpreted partial functions of the text',
    'T17: `impl Iterator for Tokenizer` is read as an inherent impl (the body of next is unchanged)',
    'T25: `peek == "lit"` and `match peek.as_str() { "lit" => .. }` are read as tests by the helper verif_peek_is (body = the original comparison; assumed: String == &str compares the characters); '
    'the lexical specification (names, aliases, symbols per evaluator) is generated from spec/tables.json, written from the README',
]

GLUES = ['i64-glue', 'f64-glue', 'number-glue', 'decimal-glue', 'complex-glue']

GLUE_ASSUME = [
    'A-std-ws (T19): expr.split_whitespace().collect::<String>() removes exactly the characters with the Unicode White_Space property and nothing else',
    'the wrapper units use weakened copies of the contracts of Parser::new, Parser::parse and eval that are proved in the parser / evaluator units',
]

PARSER_ASSUME = [
    'tokenizer interface: next() yields Eof exactly when the input is exhausted and then for ever (proved: postcondition of Tokenizer::next in the units *-tok); the parser units use it as the contract of an abstract token source',
    'T2: derived Clone/PartialEq of Token, NativeFunction, Node are structural; derived PartialOrd of OperatorCategory follows declaration order (the latter also proved by Kani on the real derive)',
    'T6 (fn-pointer parameter specialised per call site), T7 (format! dropped), T5 extraction rewrites',
    'arm splitting: match arms are verified in separate runs, every other arm pruned with assume(false); the runs together cover all arms',
]

KANI_ASSUME = [
    'A-ieee: rustc/LLVM and CBMC agree on IEEE-754 binary64 for + - * / comparisons, rounding functions and int<->float casts',
    'A-libm: sqrt, powf, powi, sin .. atanh, atan2, exp, exp2, ln, log, log2, log10 are replaced by recording stubs that return an arbitrary double: what is proved is which primitive is applied to which operands, not what it computes',
    'induction frame: an arm of eval uses its children only through eval(child) (true of the source; not machine-checked)',
    'harnesses run on an overlay copy of the unmodified crate; --no-overflow-checks only silences CBMC float NaN/inf checks (rustc overflow assertions stay on: canary in every group)',
]
AST_ASSUME = [
    'A-std-int: assumed contracts of i64::checked_neg/checked_abs/checked_pow/unsigned_abs/signum/wrapping_rem (vstd has none); vstd contracts of checked_add/sub/mul/div, min, max, RangeInclusive::contains',
    'A-libm: f64::sqrt/powf/ln/log/exp are uninterpreted (any result); int<->float casts as specified by vstd',
    'A-sort: Vec::sort_by(|a, b| a.partial_cmp(b).unwrap()) on i64 sorts (T12 helper verif_sort)',
    'A-veclen: a Vec never holds more than i64::MAX elements (axiom_vec_len_fits)',
    'A-64bit: usize is 64 bits wide',
    'T1 (error type), T2 (derived Clone of Node is structural), T5, T12, T13, T14 extraction rewrites (DESIGN 4.2)',
]
F64_ASSUME = [
    'A-ieee (Verus units f64-ast, number-ast; contracts/f64_prims.vinc): every f64 operator, comparison, libm method, constant and int<->float cast is an uninterpreted, total, deterministic function of its operands (IEEE arithmetic never panics); '
    'what is proved is which primitive is applied to which values, not its bit-level meaning',
    'T20 (unary minus on floats), T8 (f64 constants), T22 (int<->float casts), T15 (`x op= e` read as `x = x op (e)`), T14 (`/` on i64 is truncated division, panics on 0 and MIN / -1), '
    'T12 (the any-NaN test; the sort idiom: its comparator unwraps partial_cmp, which is None only for NaN, and the sort returns a permutation) extraction rewrites: every helper body is the original primitive',
    'literal facts (contracts/f64_header.vinc): a double that is not > 170.0 casts to a usize <= 170 (the saturating cast sends NaN and negative values to 0); counting 0.0 + 1.0 + .. up to 64 is exact; an i64 converted to f64 is never NaN',
]
ALL_V = ['i64-ast', 'decimal-ast', 'complex-ast', 'f64-ast', 'number-ast'] + PARSERS + TOKS + GLUES

PLAN = {
    'C01': dict(verus=ALL_V, kani=['i64-ast', 'f64-ast', 'number-ast', 'number-l4'], level='proof', assumptions=AST_ASSUME + F64_ASSUME + PARSER_ASSUME + ['A-stack, A-alloc: stack exhaustion and allocation failure are not modelled'],
                unclaimed=['stack exhaustion on deeply nested input (A-stack)']),
    'C02': dict(verus=ALL_V, kani=['f64-ast', 'number-ast', 'i64-ast'], level='proof', assumptions=AST_ASSUME + F64_ASSUME + PARSER_ASSUME,
                unclaimed=[
                           'the sum of the three machine-checked bounds (tokenizer: one token per >= 1 character; parser: <= 8 * tokens + 9 steps; evaluator: <= 2 * tokens calls, loops capped) into the single figure 4096 + 256*len is arithmetic on paper', 'loop iterations inside one Tokenizer::next call (bounded by the characters it consumes: its decreases measure) are not counted by a counter']),
    'C10': dict(verus=ALL_V, kani=['i64-ast', 'f64-ast', 'number-ast', 'number-l4'], level='proof', assumptions=AST_ASSUME + F64_ASSUME + PARSER_ASSUME,
                unclaimed=['numerical accuracy of libm-backed functions, gamma, Lambert W (A-libm: which primitive is applied to which operands is proved, not what it computes)']),
    'C11': dict(verus=ALL_V, kani=['f64-ast', 'number-ast'], level='proof', assumptions=AST_ASSUME + F64_ASSUME + PARSER_ASSUME,
                unclaimed=['med of two or more arguments in eval_f64 / eval_number / eval_decimal is specified up to the order of arguments that compare equal (0.0 / -0.0, Integer(2) / Float(2.0), 1.0 / 1.00): the result is the median of SOME sorted permutation of the argument values',
                           'independence of the argument order is machine-checked for eval_i64 min / max (element and bound of the sequence), avg (the sum depends only on the multiset; both orders must stay inside i64 on the way) and med (a sorted sequence is determined by its multiset), '
                           'and gcd of two values is the greatest common divisor by its defining property; not machine-checked: order-independence of the n-ary gcd / lcm folds, and of the floating-point / Decimal sums (rounding makes a left-to-right sum depend on the order in the last bit)']),
    'C13': dict(verus=PARSERS + GLUES + TOKS + ['f64-ast', 'number-ast'], kani=['f64-ast', 'number-ast'], level='proof', assumptions=PARSER_ASSUME + GLUE_ASSUME + TOK_ASSUME,
                unclaimed=[]),
    'C14': dict(verus=ALL_V, kani=['f64-ast', 'number-ast'], level='proof', assumptions=AST_ASSUME + F64_ASSUME + PARSER_ASSUME,
                unclaimed=[]),
    'C05': dict(verus=['f64-ast', 'f64-parser', 'f64-glue', 'f64-tok'], kani=['f64-ast'], level='proof',
                assumptions=F64_ASSUME + KANI_ASSUME + ['constants pi and e: the parser inserts std::f64::consts::PI / E (T8: their bit patterns are not re-proved)'],
                unclaimed=['value of / and % on the full operand domain (bounded stand-ins only; full-domain division is tried in the thorough tier)',
                           'numerical behaviour of the platform pow / sqrt (A-libm)']),
    'C07': dict(verus=['decimal-ast', 'decimal-parser', 'decimal-tok', 'decimal-glue'], level='proof',
                assumptions=PARSER_ASSUME + ['A-decimal: contract header for rust_decimal::Decimal (contracts/decimal_header.vinc): the plain operators and ln/exp/log10/sin/powd panic exactly when their checked_* twins return None; '
                             'division and remainder by zero are undefined; a handful of literal facts (x % 1, x / 2, x / 3, exp(-1), ln 2 are defined); results are uninterpreted',
                             'T8 (Decimal::ZERO/MAX/MIN/PI/E), T12 (sort idiom), T15 (op= rewritten to op) extraction rewrites'],
                unclaimed=['that rust_decimal\'s + - * / % are exact / correctly rounded as the property says (A-decimal: not decided here)',
                           ]),
    'C08': dict(verus=['complex-ast', 'complex-parser', 'complex-tok', 'complex-glue'], kani=['complex-ast'], level='proof',
                assumptions=KANI_ASSUME + PARSER_ASSUME + ['A-numcomplex: contract header for num_complex::Complex<f64> (every operation total, results uninterpreted): '
                             'what is proved for * / ^ pow sqrt root exp exp2 ln lb log abs and the trigonometric / hyperbolic functions is which num_complex operation is applied to which operands in which order'],
                unclaimed=['the 1e-12 / 1e-9 closeness of num_complex operations to the textbook definitions',
                           'agreement with eval_f64 on real operands']),
    'C09': dict(verus=['number-ast', 'number-tok', 'number-glue', 'number-parser'], kani=['number-ast', 'number-l4'], level='proof', assumptions=F64_ASSUME + KANI_ASSUME + TOK_ASSUME,
                unclaimed=['bit-level meaning of the IEEE primitives (A-ieee in the Verus unit: each is an uninterpreted total function; Kani proves + - * unary minus abs and the rounding functions bit-exact, / and % on a bounded domain)']),
    'C15': dict(verus=['i64-ast', 'f64-ast', 'number-ast', 'complex-ast', 'decimal-ast', 'i64number-agree', 'f64number-agree'] + PARSERS + GLUES + TOKS, kani=['i64-ast', 'number-ast', 'f64-ast', 'number-l4'], tables_agree=True, level='proof',
                assumptions=AST_ASSUME + F64_ASSUME + KANI_ASSUME + PARSER_ASSUME + [
                    'agreement is obtained as a corollary, not as one relational theorem: (1) eval_i64 returns Ok(v) only for the exact integer v (Verus, all trees) and eval_number returns Integer(exact) on Integer operands whenever it fits (Kani, per constructor), '
                    '(2) every Float / mixed arm of eval_number has the numeric value of the IEEE operation that the same arm of eval_f64 applies (Kani, per constructor, bit-exact), '
                    '(3) all five parsers refine spec parsers generated from tables that are identical on shared entries. For the first clause (eval_i64 vs eval_number) the induction over the expression tree that combines the two per-evaluator theorems '
                    'is machine-checked: unit i64number-agree proves, over the two specification vocabularies the evaluators are verified against, that on corresponding trees of the common integer sub-language (exact divisions only) a value v of the '
                    'eval_i64 specification implies Integer(v) of the eval_number specification. For the second clause (eval_f64 vs eval_number) unit f64number-agree proves the same kind of theorem over the eval_f64 and eval_number vocabularies: on corresponding trees of the shared grammar '
                    '(arithmetic, sign / rounding functions, the libm-backed functions; not x!, w, ilog and the aggregates), if every intermediate eval_f64 value is finite, below 2^53 and not a negative zero and no Integer is raised to a negative Integer power, '
                    'the eval_number value has exactly the double value of eval_f64',
                    'A-ieee-exact (unit f64number-agree, axiom_ieee_exact): integers below 2^53 are exact doubles, so + - * exact-/ fmod neg abs floor ceil round trunc signum commute with the i64 -> f64 conversion whenever the result stays nice; '
                    'f64 -> i64 -> f64 round-trips on integral values; pow is exact on integer powers below 2^53 (the last one is an assumption about libm)'],
                unclaimed=['eval_complex vs eval_f64 and eval_decimal vs eval_f64 within 1e-9 (numerical: no contract here can express it)',
                           'the second clause for x!, w, ilog and the aggregates (outside the sub-language of the f64 / number theorem)']),
    'C17': dict(verus=PARSERS, features_sweep=True, level='proof',
                assumptions=PARSER_ASSUME + ['cargo feature resolution; the all-features test suite is the baseline, the crate\'s unit tests are not re-run per subset',
                                             'the cfg-dependent text is only the category enum: per subset the derived order is re-proved by Kani and the build/export probe is compiled; '
                                             'the parsers are re-verified for both shapes of the enum (with and without the eval_i64 categories)'],
                unclaimed=['"same result for every input as in the default build" follows from: nothing else is cfg-dependent (S:c17/cfg-frame) and the order of the remaining categories is unchanged; it is not a separately machine-checked relational theorem']),
    'C18': dict(verus=['number-ast', 'number-glue'], kani=['number-l4'], level='proof',
                assumptions=F64_ASSUME[:2] + ['A-ieee: rustc/LLVM and CBMC agree on IEEE-754 binary64 comparison, floor and float->int casts',
                             'loop-free harness over kani::any::<f64>() / kani::any::<i64>(): every bit pattern, no bound'],
                unclaimed=[]),
    'C19': dict(verus=TOKS + GLUES, kani=['f64-ast', 'complex-ast', 'i64-ast', 'number-ast'], level='proof', assumptions=TOK_ASSUME + KANI_ASSUME,
                unclaimed=['that std str::parse::<f64> is correctly rounded, parse::<i64> exact and Decimal::from_str exact (A-std-parse: the conversions are uninterpreted)',
                           'the read-back clause: it needs the shape of std / rust_decimal / num_complex Display output (A-display), which no contract here can express; '
                           'what is proved towards it: the literal grammar accepted by the tokenizers, and that a prefix minus is an exact sign flip (Kani K:f64-ast/step_negative, K:complex-ast/step_negative, Verus i64 Negative)']),
    'C20': dict(verus=ALL_V, kani=['f64-ast', 'number-ast'], level='proof', assumptions=AST_ASSUME + F64_ASSUME + PARSER_ASSUME,
                unclaimed=[]),

    'C06': dict(
        verus=['i64-ast', 'i64-tok', 'i64-glue', 'i64-parser'], kani=['i64-ast'],
        level='proof',
        assumptions=[
            'A-std-int: assumed contracts of i64::checked_neg/checked_abs/checked_pow/unsigned_abs/signum/wrapping_rem (vstd has none); vstd contracts of checked_add/sub/mul/div',
            'T1 (error type), T2 (derived Clone is structural), T5, T12, T13, T14 extraction rewrites (DESIGN 4.2)',
            'T16: str::parse::<i64> is an uninterpreted partial function of the literal text (the tokenizer hands it the maximal digit run and rejects the literal when it returns None)',
        ],
        unclaimed=[],
    ),
    'C03': dict(verus=PARSERS + TOKS + GLUES, level='proof', assumptions=PARSER_ASSUME + TOK_ASSUME,
                unclaimed=[]),
    'C04': dict(verus=PARSERS + TOKS + GLUES + ['i64-ast', 'f64-ast', 'number-ast', 'decimal-ast', 'complex-ast'], kani=['tables', 'f64-ast', 'number-ast', 'i64-ast'], level='proof', assumptions=PARSER_ASSUME + TOK_ASSUME, unclaimed=[]),
    'C12': dict(verus=PARSERS + TOKS + GLUES, level='proof', assumptions=PARSER_ASSUME + TOK_ASSUME, unclaimed=[]),
}


C17_QUICK_SUBSETS = [['eval_decimal'], ['eval_f64'], ['eval_i64'], ['eval_complex'], ['eval_number'],
                     ['eval_f64', 'eval_number'], ['eval_decimal', 'eval_f64', 'eval_i64', 'eval_complex', 'eval_number']]


def verus_units(pid, tier):
    return PLAN[pid].get('verus', []) + (PLAN[pid].get('verus_thorough', []) if tier == 'thorough' else [])


def kani_groups(pid, tier):
    return PLAN[pid].get('kani', []) + (PLAN[pid].get('kani_thorough', []) if tier == 'thorough' else [])


# ---- texts for MANIFEST.json -------------------------------------------------------------------------
_V = 'Verus proves, for all inputs and with no bound, the contracts spliced onto the real function text extracted from /repo on every run; '
LEVEL_TEXT = {
    'C01': _V + 'owned obligations = every implicit panic obligation (arithmetic overflow, division by zero, shift range, index bounds, unwrap / callee preconditions incl. the panic conditions of rust_decimal stated in its contract header) of '
                'all five tokenizers, all five parsers, the five public wrappers and all five evaluators (every tree, any arity); for eval_f64, eval_number and eval_i64 Kani additionally proves one harness per constructor over fully symbolic leaves '
                '(rustc overflow assertions and CBMC pointer / bounds checks on, all operand bit patterns). Termination is part of it (a call that never returns yields neither Ok nor Err): the decreases obligations and the progress clause of the parser methods are co-owned with C02.',
    'C02': _V + 'owned obligations = the decreases clauses of every loop and every (mutual) recursion in the tokenizers (measure: characters left; every token consumes at least one), the parsers (measure: tokens left), '
                'all five evaluators (structural recursion, Euclid, factorial with its caps 170 / 20, Lambert W capped at 128 iterations, ilog capped at 64 steps); Kani cross-checks the caps of eval_f64 and eval_number '
                'with unwinding assertions over the full operand domain. Work is bounded, not only finite: every evaluator carries a ghost step counter with the contract `calls of eval <= nodes of the tree` (cost), and every parser method carries a size clause from which Parser::parse ensures `nodes < 2 * tokens` (so a parser that builds more than it reads, or an evaluator that evaluates a subtree twice, fails an obligation); every parser method carries a ghost step counter too, bounded by 8 per consumed token on success and by 8 * (tokens left) + 9 on every error path, so Parser::parse makes at most 8 * tokens + 9 method calls and loop iterations; the tokenizer consumes at least one character per token. Still on paper: adding the three bounds up to the constant 4096 + 256*len.',
    'C03': _V + 'every Parser method of the five evaluators refines a table-driven specification parser (Ok iff the spec parser accepts and the whole token stream is consumed); the tokenizers refine a lexical specification generated from the README vocabulary (a function name or alias is a token only directly before `(`, unknown characters and unknown words are rejected, Eof exactly at the end of input); '
                'the public wrappers return Err iff the stripped text does not parse. Owned: parse (Eof), check_paren, argument-list methods, reject exits, wrapper.',
    'C04': _V + 'get_oper_prec equals the precedence table, generate_ast is precedence climbing with strict <, every binary / prefix / postfix / bracket arm builds the node and uses the operand level the tables give; '
                'Kani proves on the real derive that the derived order of OperatorCategory is the precedence order. "The value is that of evaluating the tree": the operator arms of all five evaluators apply their operation to the values of their children (the evaluator contracts), the operator symbols lex to their tokens, the wrappers are the plain composition.',
    'C06': _V + 'eval_i64::ast::eval returns the exact integer of the mathematical specification spec_eval or Err, for all trees; overflow obligations of every arithmetic arm are discharged; Kani cross-checks each arm with bit-vector semantics '
                '(shifts as multiplication / floor division by 2^y) and supplies replayable counterexamples; the whole eval_i64 stack is owned: the parser refines the grammar, the tokenizer hands the maximal digit run to the conversion and rejects what does not fit (Kani point harnesses at the edge of i64), the wrapper is the plain composition; n! is proved over all of i64 by Kani as well (the unwinding assertion is its iteration bound).',
    'C10': _V + 'every README name and alias lexes to its function token in each evaluator that offers it (lexical specification of the tokenizers); arity and argument order of every function in all five parsers (refinement to the function table); exact integer functions of eval_i64; the mapping of every function node to the rust_decimal / num_complex operation (headers); '
                'every function node of eval_f64 and eval_number applies the named IEEE / libm primitive to its children\'s values in the stated order (primitives uninterpreted), with Number::from applied to the result in eval_number; x! of a non-integer (eval_f64) resp. outside 0..=20 / of a Float (eval_number) is gamma(x + 1) - which argument reaches gamma is proved, its value is not; '
                'Kani: every function arm of eval_f64 / eval_number / eval_i64 applies the named libm primitive once to the operands in the stated order (recording stubs), exact ones (abs, floor, ceil, trunc, round with ties away from zero, sgn(0)=0) bit-exactly.',
    'C11': _V + 'eval_i64 aggregates (min max avg med gcd lcm) for any arity against fold specifications over the sequence of argument values, error propagation; variadic argument lists and the empty-list policy in the four parsers that have them; '
                'eval_f64 and eval_number aggregates for any arity: min / max are the fold of the IEEE min / max (eval_number: of the comparison of the double values, keeping the argument) from the identity, avg is the left-to-right sum divided by the count, '
                'med is NaN if any argument is NaN, the argument itself for one argument, and for more arguments the middle value / the mean of the two middle values of a permutation of the argument values sorted by the IEEE (eval_number: double-value, eval_decimal: Decimal) order; a failing argument makes the aggregate fail; eval_decimal aggregates: min / max folds, avg = checked sum / count, med as above, Err when a sum leaves the Decimal range.',
    'C12': _V + 'implicit_multiply, its call sites and parse (Eof) refine the juxtaposition rule of the specification parser (trigger sets, operand level Multiplicative, node order, no literal after a literal, no product at @ / constants / superscripts / degree signs) in all five parsers.',
    'C13': _V + 'the notation arms (floor/ceil brackets, mod/pow functions, superscripts, prefix +, redundant brackets) build the same nodes as their synonyms, by refinement to the tables, in all five parsers; a superscript run lexes to the exponent its digits spell (2¹⁰ = 2^10); alias spellings (sign / sgn / signum, trunc / truncate, med / median, asinh / arsinh .., w / lambert_w, pi / π) lex to the same token; the public wrappers hand exactly '
                'the whitespace-stripped text to the parser; the alias nodes apply the same primitive (Kani).',
    'C14': _V + 'the `@` arm yields the leaf holding the stored placeholder and takes no part in implicit multiplication; Parser::new stores the placeholder; the wrappers pass Some(placeholder) and return the evaluator\'s value unchanged; '
                'the leaf arm of every evaluator returns its payload bit for bit (Verus, all five; Kani f64 / number again).',
    'C20': _V + 'a bracketed group is parsed from level DefaultZero independently of its context (sp_group); every evaluator is a function of its children\'s values: the contract of eval against the recursive specification spec_eval in all five evaluators (Verus), plus per-constructor Kani steps (f64, number).',
}
LEVEL_TEXT['C18'] = ('Verus proves the contract of Number::from(f64) (Integer exactly when the value minus its floor is zero and the floor is in [i64::MIN as f64, i64::MAX as f64), the payload being the cast of the floor; Float(value) otherwise) and of Number::from(i64), which every caller in eval_number relies on; the rounding functions of eval_number hand the rounded double to Number::from and the wrapper returns the Number of the evaluator unchanged (no conversion on the way out). Kani/CBMC proves two loop-free harnesses over the full input domain (all 2^64 doubles, all i64) that call the real, '
                     'unmodified Number::from and assert the exact characterisation of the property; a loop-free full-domain harness is a complete proof.')
LEVEL_TEXT['C05'] = ('Verus proves for all trees of eval_f64 (any arity, no bound) that every node applies the IEEE / libm primitive the property names to its children\'s values in the stated order, that no node turns a value into Err, '
                     'and that the wrapper returns that value unchanged (the primitives themselves are uninterpreted total functions). Kani/CBMC proves one loop-free harness per Node constructor of eval_f64 over fully symbolic double leaves (every bit pattern): '
                     '+ - * unary minus abs floor ceil trunc round are bit-exact IEEE operations and never Err; ^ and sqrt apply powf / sqrt to the operands in order. '
                     '/ and % are proved total (never Err, never a panic) on the full domain; their value only on a bounded domain (labelled bounded, not counted).')
LEVEL_TEXT['C09'] = ('Verus proves for all trees of eval_number (no bound): on Integer operands + - * % unary minus abs sgn, exact division, ^ with an exponent in 0..u32::MAX and n! (0..20) return Integer(exact mathematical result) whenever it fits i64 and otherwise the Float '
                     'of the IEEE operation on the operands\' double values; every arm with a Float operand applies the IEEE / libm primitive to the double values; floor / ceil / round / trunc return Number::from(rounded value); Number::from(f64) is as C18 states. Kani/CBMC proves one harness per Node constructor and operand-variant combination of eval_number over fully symbolic Integer/Float leaves: '
                     'Integer results are exact when they fit and otherwise the Float of the operands, Float operands give the IEEE value, rounding functions return the rounded value, '
                     'plus Number::from over all doubles.')
LEVEL_TEXT['C17'] = ('For each feature subset (quick: the 5 singletons, one pair and the full set; thorough: all 31) a generated probe crate is compiled against the crate built with exactly that subset '
                     '(it names every selected export and would be ambiguous on any other), Kani re-proves the derived category order under that cfg, and Verus re-verifies the parsers for both shapes of the '
                     'cfg-dependent enum; a syntactic frame check shows nothing else is cfg-dependent.')
LEVEL_TEXT['C08'] = ('Verus proves for all trees that eval_complex::ast::eval never fails and applies, at every node, the num_complex operation the property names to its children\'s values in the stated order '
                     '(contract header for num_complex); Kani proves + - and unary minus bit-exact against the textbook component formulas over all operand bit patterns, and * / total.')
LEVEL_TEXT['C07'] = ('Verus proves for all trees that eval_decimal::ast::eval applies the rust_decimal operation the property names at every + - * / % unary-minus node, and returns Err - never a panic - exactly when that '
                     'operation is undefined (division or remainder by zero) or its result is outside the Decimal range, against a contract header for rust_decimal.')
LEVEL_TEXT['C19'] = ('Verus proves for every input of every tokenizer that a literal starting with a digit is scanned to the end of the maximal run of digits (and points), that a literal starting with a point is '
                     'scanned to the end of its digit run and prefixed with 0, that exactly this text is handed to str::parse / Decimal::from_str (no f64 round trip for Decimal), that eval_number '
                     'chooses Integer iff the text has no point, that eval_complex makes it imaginary iff an `i` follows directly, and that text the conversion rejects yields Err instead of a panic.')
LEVEL_TEXT['C15'] = ('The components of the agreement are discharged separately: exactness of eval_i64 (Verus), Integer-exact-or-Float behaviour of eval_number on Integer operands and IEEE values on Float operands (Kani, per constructor), '
                     'bit-exact IEEE arms of eval_f64 (Kani), refinement of all five parsers to spec parsers generated from tables that are checked to be identical on shared entries. '
                     'Both agreement clauses between evaluators of this crate are then machine-checked theorems over the specification vocabularies the evaluators are verified against (units i64number-agree and f64number-agree): '
                     'Ok(v) of eval_i64 implies Integer(v) of eval_number on the integer sub-language; on the shared f64 grammar with nice intermediate values the eval_number value has exactly the double value of eval_f64 (IEEE exactness facts below 2^53 as axioms).')
DESIGN_REF = {}
TECHNIQUE = {'C18': 'contract-style full-domain Kani harness on the unmodified function (bit-precise, no unwinding bound)'}
NOT_APPLICABLE = {
    'C16': 'contracts speak about one call: neither installed verifier can quantify over unbounded call histories or thread interleavings (Kani has no threads; Verus would need permission types around code that has no shared state to annotate)',
}
